package main

// Minimal S-expression reader for solver (get-value ...) output, plus evaluation
// of numeral / rational / boolean value terms.

import (
	"fmt"
	"math/big"
	"strings"
)

type sx struct {
	atom string
	list []*sx
	isL  bool
}

func (s *sx) String() string {
	if s == nil {
		return "?"
	}
	if !s.isL {
		return s.atom
	}
	parts := make([]string, len(s.list))
	for i, c := range s.list {
		parts[i] = c.String()
	}
	return "(" + strings.Join(parts, " ") + ")"
}

// head returns the leading atom of a list ("" for atoms / empty lists).
func (s *sx) head() string {
	if s == nil || !s.isL || len(s.list) == 0 || s.list[0].isL {
		return ""
	}
	return s.list[0].atom
}

func (s *sx) args() []*sx {
	if s == nil || !s.isL || len(s.list) == 0 {
		return nil
	}
	return s.list[1:]
}

// parseSexprs reads all top-level S-expressions of s.
func parseSexprs(s string) ([]*sx, error) {
	var out []*sx
	var stack []*sx
	emit := func(n *sx) {
		if len(stack) == 0 {
			out = append(out, n)
		} else {
			top := stack[len(stack)-1]
			top.list = append(top.list, n)
		}
	}
	i := 0
	for i < len(s) {
		c := s[i]
		switch {
		case c == ' ' || c == '\t' || c == '\n' || c == '\r':
			i++
		case c == ';':
			for i < len(s) && s[i] != '\n' {
				i++
			}
		case c == '(':
			stack = append(stack, &sx{isL: true})
			i++
		case c == ')':
			if len(stack) == 0 {
				return out, fmt.Errorf("unbalanced ')' at %d", i)
			}
			n := stack[len(stack)-1]
			stack = stack[:len(stack)-1]
			emit(n)
			i++
		case c == '"':
			j := i + 1
			for j < len(s) {
				if s[j] == '"' {
					if j+1 < len(s) && s[j+1] == '"' {
						j += 2
						continue
					}
					break
				}
				j++
			}
			if j >= len(s) {
				return out, fmt.Errorf("unterminated string")
			}
			emit(&sx{atom: s[i : j+1]})
			i = j + 1
		case c == '|':
			j := strings.IndexByte(s[i+1:], '|')
			if j < 0 {
				return out, fmt.Errorf("unterminated quoted symbol")
			}
			emit(&sx{atom: s[i : i+j+2]})
			i += j + 2
		default:
			j := i
			for j < len(s) && !strings.ContainsRune(" \t\n\r();\"", rune(s[j])) {
				j++
			}
			emit(&sx{atom: s[i:j]})
			i = j
		}
	}
	if len(stack) != 0 {
		return out, fmt.Errorf("unbalanced '('")
	}
	return out, nil
}

// sxRat evaluates a numeric value term: numerals, decimals, (- x), (/ a b), (+ ..), (* ..), (to_real x).
func sxRat(s *sx) (*big.Rat, bool) {
	if s == nil {
		return nil, false
	}
	if !s.isL {
		r := new(big.Rat)
		if _, ok := r.SetString(s.atom); ok && s.atom != "" && (s.atom[0] >= '0' && s.atom[0] <= '9' || s.atom[0] == '-') && !strings.ContainsAny(s.atom, "eE") {
			return r, true
		}
		return nil, false
	}
	h := s.head()
	as := s.args()
	var vals []*big.Rat
	for _, a := range as {
		v, ok := sxRat(a)
		if !ok {
			return nil, false
		}
		vals = append(vals, v)
	}
	switch h {
	case "-":
		if len(vals) == 1 {
			return new(big.Rat).Neg(vals[0]), true
		}
		if len(vals) >= 2 {
			r := new(big.Rat).Set(vals[0])
			for _, v := range vals[1:] {
				r.Sub(r, v)
			}
			return r, true
		}
	case "+":
		r := new(big.Rat)
		for _, v := range vals {
			r.Add(r, v)
		}
		return r, len(vals) > 0
	case "*":
		r := big.NewRat(1, 1)
		for _, v := range vals {
			r.Mul(r, v)
		}
		return r, len(vals) > 0
	case "/":
		if len(vals) == 2 && vals[1].Sign() != 0 {
			return new(big.Rat).Quo(vals[0], vals[1]), true
		}
	case "to_real", "to_int":
		if len(vals) == 1 {
			return vals[0], true
		}
	}
	return nil, false
}

func sxInt(s *sx) (*big.Int, bool) {
	r, ok := sxRat(s)
	if !ok || !r.IsInt() {
		return nil, false
	}
	return new(big.Int).Set(r.Num()), true
}

func sxBool(s *sx) (bool, bool) {
	if s == nil || s.isL {
		return false, false
	}
	switch s.atom {
	case "true":
		return true, true
	case "false":
		return false, true
	}
	return false, false
}

// smtInt renders an integer as an SMT-LIB term.
func smtInt(v *big.Int) string {
	if v.Sign() < 0 {
		return "(- " + new(big.Int).Neg(v).String() + ")"
	}
	return v.String()
}
