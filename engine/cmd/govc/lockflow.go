package main

// Lock-discipline obligations by a flow-sensitive must-hold analysis over the SSA of
// whole functions (no symbolic execution, so it also covers large handler functions):
// every read/write of a struct field declared `//@ guarded_by T.mu: f1, f2` must happen
// while T.mu of the same object is held (read lock suffices for reads).

import (
	"fmt"
	"go/token"
	"go/types"
	"sort"
	"strings"

	"golang.org/x/tools/go/ssa"
)

type lockSet map[string]int // key -> 1 (read) / 2 (write)

func (a lockSet) clone() lockSet {
	b := lockSet{}
	for k, v := range a {
		b[k] = v
	}
	return b
}

func meet(a, b lockSet) lockSet {
	out := lockSet{}
	for k, v := range a {
		if w, ok := b[k]; ok {
			if w < v {
				v = w
			}
			out[k] = v
		}
	}
	return out
}

func sameLocks(a, b lockSet) bool {
	if len(a) != len(b) {
		return false
	}
	for k, v := range a {
		if b[k] != v {
			return false
		}
	}
	return true
}

// canonBase gives a stable textual identity to the object a pointer value denotes.
func canonBase(v ssa.Value, depth int) string {
	if depth > 6 {
		return "val:" + v.Name()
	}
	switch x := v.(type) {
	case *ssa.Parameter:
		return "param:" + x.Name()
	case *ssa.FreeVar:
		return "free:" + x.Name()
	case *ssa.Alloc:
		if x.Comment != "" {
			return "var:" + x.Comment
		}
		return "alloc:" + x.Name()
	case *ssa.UnOp:
		if x.Op == token.MUL {
			return "*" + canonBase(x.X, depth+1)
		}
	case *ssa.FieldAddr:
		st := x.X.Type().Underlying().(*types.Pointer).Elem().Underlying().(*types.Struct)
		return canonBase(x.X, depth+1) + "." + st.Field(x.Field).Name()
	case *ssa.ChangeType:
		return canonBase(x.X, depth+1)
	case *ssa.Global:
		return "global:" + x.Name()
	}
	return "val:" + v.Name()
}

// lockCallKey: if the call is a (RW)Mutex (un)lock on a struct field, returns the key
// "<base>.<mutexField>" and the mode (2 Lock, 1 RLock, 0 Unlock/RUnlock).
func lockCallKey(cc *ssa.CallCommon) (string, int, bool) {
	callee := cc.StaticCallee()
	if callee == nil || len(cc.Args) == 0 {
		return "", 0, false
	}
	mode := -1
	switch callee.String() {
	case "(*sync.Mutex).Lock", "(*sync.RWMutex).Lock":
		mode = 2
	case "(*sync.RWMutex).RLock":
		mode = 1
	case "(*sync.Mutex).Unlock", "(*sync.RWMutex).Unlock", "(*sync.RWMutex).RUnlock":
		mode = 0
	default:
		return "", 0, false
	}
	return canonBase(cc.Args[0], 0), mode, true
}

type guardedAccess struct {
	instr     ssa.Instruction
	key       string // lock key required
	what      string // Type.field
	write     bool
	ownerRead bool
}

// lockFlowFunc returns the guarded-by obligations of one function.
func (c *Ctx) lockFlowFunc(fn *ssa.Function) []*Obligation {
	if fn.Blocks == nil || c.isCtor(fn) || c.isGhostFile(fn) {
		return nil
	}
	// 1. find guarded accesses
	var accs []guardedAccess
	guardedVal := map[ssa.Value]guardedAccess{} // values loaded from a guarded field (maps, slices)
	for _, b := range fn.Blocks {
		for _, ins := range b.Instrs {
			fa, ok := ins.(*ssa.FieldAddr)
			if !ok {
				continue
			}
			pt := fa.X.Type().Underlying().(*types.Pointer)
			st, ok := pt.Elem().Underlying().(*types.Struct)
			if !ok {
				continue
			}
			fname := st.Field(fa.Field).Name()
			mu := c.guardOf(pt.Elem(), fname)
			if mu == "" {
				continue
			}
			// object under construction in this function: not shared yet
			if al, isAlloc := fa.X.(*ssa.Alloc); isAlloc && al.Heap {
				continue
			}
			key := canonBase(fa.X, 0) + "." + mu
			what := typeShort(pt.Elem()) + "." + fname
			root := fn
			for root.Parent() != nil {
				root = root.Parent()
			}
			ownerRead := c.guardOwner(pt.Elem(), fname, root.Name())
			for _, ref := range *fa.Referrers() {
				switch r := ref.(type) {
				case *ssa.UnOp:
					if r.Op == token.MUL {
						ga := guardedAccess{instr: r, key: key, what: what, ownerRead: ownerRead}
						accs = append(accs, ga)
						guardedVal[r] = ga
					}
				case *ssa.Store:
					if r.Addr == fa {
						accs = append(accs, guardedAccess{instr: r, key: key, what: what, write: true})
					}
				}
			}
		}
	}
	// uses of loaded guarded maps
	for v, ga := range guardedVal {
		refs := v.Referrers()
		if refs == nil {
			continue
		}
		for _, ref := range *refs {
			switch r := ref.(type) {
			case *ssa.MapUpdate:
				if r.Map == v {
					accs = append(accs, guardedAccess{instr: r, key: ga.key, what: ga.what + "[]", write: true})
				}
			case *ssa.Lookup:
				if r.X == v {
					accs = append(accs, guardedAccess{instr: r, key: ga.key, what: ga.what + "[]", ownerRead: ga.ownerRead})
				}
			case *ssa.Range:
				if r.X == v {
					accs = append(accs, guardedAccess{instr: r, key: ga.key, what: ga.what + "[range]", ownerRead: ga.ownerRead})
				}
			case *ssa.Call:
				if bi, ok := r.Call.Value.(*ssa.Builtin); ok && bi.Name() == "delete" && len(r.Call.Args) > 0 && r.Call.Args[0] == v {
					accs = append(accs, guardedAccess{instr: r, key: ga.key, what: ga.what + "[delete]", write: true})
				}
			}
		}
	}
	// calls of owner-goroutine functions from elsewhere (they read guarded fields without the lock)
	var ownerCalls []*Obligation
	{
		root := fn
		for root.Parent() != nil {
			root = root.Parent()
		}
		n := 0
		for _, b := range fn.Blocks {
			for _, ins := range b.Instrs {
				call, ok := ins.(*ssa.Call)
				if !ok {
					continue
				}
				callee := call.Common().StaticCallee()
				if callee == nil || callee.Pkg == nil || callee.Signature.Recv() == nil {
					continue
				}
				rt := callee.Signature.Recv().Type()
				if pt, ok := rt.(*types.Pointer); ok {
					rt = pt.Elem()
				}
				for _, g := range c.guardDecls(rt) {
					if g.Owners[callee.Name()] && !g.Owners[root.Name()] {
						n++
						ob := &Obligation{Name: fmt.Sprintf("%s#owner-call#%s@%d", c.funcKey(fn), callee.Name(), n), Kind: "guarded-read", Func: c.funcKey(fn), Solver: "lockflow", Goal: "caller runs on owner goroutine", PC: "true", Result: "sat",
							Model: fmt.Sprintf("%s reads fields guarded by %s.%s without the lock and may only run on the owner goroutine, but is called from %s", callee.Name(), g.Type, g.Mutex, c.funcKey(fn))}
						if ins.Pos().IsValid() {
							p := c.fset.Position(ins.Pos())
							ob.Pos = fmt.Sprintf("%s:%d", p.Filename, p.Line)
						}
						ownerCalls = append(ownerCalls, ob)
					}
				}
			}
		}
	}
	if len(accs) == 0 {
		return ownerCalls
	}
	// 2. must-hold dataflow
	in := make([]lockSet, len(fn.Blocks))
	out := make([]lockSet, len(fn.Blocks))
	var top lockSet // nil = unvisited (top)
	for i := range in {
		in[i], out[i] = top, top
	}
	in[0] = lockSet{}
	transfer := func(b *ssa.BasicBlock, s lockSet, record func(ssa.Instruction, lockSet)) lockSet {
		cur := s.clone()
		for _, ins := range b.Instrs {
			if record != nil {
				record(ins, cur)
			}
			if call, ok := ins.(*ssa.Call); ok {
				if key, mode, ok := lockCallKey(call.Common()); ok {
					if mode == 0 {
						delete(cur, key)
					} else {
						cur[key] = mode
					}
				}
			}
			// deferred unlocks release at function exit only: nothing to do
		}
		return cur
	}
	work := []int{0}
	for len(work) > 0 {
		bi := work[0]
		work = work[1:]
		b := fn.Blocks[bi]
		no := transfer(b, in[bi], nil)
		if out[bi] != nil && sameLocks(out[bi], no) {
			continue
		}
		out[bi] = no
		for _, s := range b.Succs {
			var ni lockSet
			if in[s.Index] == nil {
				ni = no.clone()
			} else {
				ni = meet(in[s.Index], no)
			}
			if in[s.Index] == nil || !sameLocks(in[s.Index], ni) {
				in[s.Index] = ni
				work = append(work, s.Index)
			}
		}
	}
	// 3. check accesses
	held := map[ssa.Instruction]lockSet{}
	for _, b := range fn.Blocks {
		if in[b.Index] == nil {
			continue
		}
		transfer(b, in[b.Index], func(i ssa.Instruction, s lockSet) { held[i] = s.clone() })
	}
	sort.Slice(accs, func(i, j int) bool {
		if accs[i].instr.Pos() != accs[j].instr.Pos() {
			return accs[i].instr.Pos() < accs[j].instr.Pos()
		}
		return accs[i].what < accs[j].what
	})
	var obs []*Obligation
	seen := map[string]int{}
	for _, a := range accs {
		s, reachable := held[a.instr]
		if !reachable {
			continue
		}
		need := 1
		kind := "guarded-read"
		if a.write {
			need, kind = 2, "guarded-write"
		}
		name := fmt.Sprintf("%s#%s#%s", c.funcKey(fn), kind, a.what)
		seen[name]++
		if n := seen[name]; n > 1 {
			name = fmt.Sprintf("%s@%d", name, n)
		}
		ob := &Obligation{Name: name, Kind: kind, Func: c.funcKey(fn), Solver: "lockflow", Goal: "held(" + a.key + ")", PC: "true"}
		if a.instr.Pos().IsValid() {
			p := c.fset.Position(a.instr.Pos())
			ob.Pos = fmt.Sprintf("%s:%d", p.Filename, p.Line)
		}
		if s[a.key] >= need || (!a.write && a.ownerRead) {
			ob.Result = "unsat"
			if s[a.key] < need {
				ob.Solver = "lockflow(owner-read)"
			}
		} else {
			ob.Result = "sat"
			var hs []string
			for k, v := range s {
				hs = append(hs, fmt.Sprintf("%s(%d)", k, v))
			}
			sort.Strings(hs)
			ob.Model = fmt.Sprintf("lock %s not held (mode needed %d) at %s; held here: [%s]", a.key, need, ob.Pos, strings.Join(hs, " "))
		}
		obs = append(obs, ob)
	}
	return append(obs, ownerCalls...)
}

// lockFlowPackage runs the analysis on every function (and closure) of the repo packages
// that declare guards.
func (c *Ctx) lockFlowAll(pkgPaths map[string]bool) []*Obligation {
	var fns []*ssa.Function
	for _, fn := range c.funcsByKey {
		if fn.Pkg != nil && pkgPaths[fn.Pkg.Pkg.Path()] {
			fns = append(fns, fn)
		}
	}
	// closures
	var all []*ssa.Function
	var add func(f *ssa.Function)
	add = func(f *ssa.Function) {
		all = append(all, f)
		for _, an := range f.AnonFuncs {
			add(an)
		}
	}
	for _, f := range fns {
		if f.Parent() == nil {
			add(f)
		}
	}
	sort.Slice(all, func(i, j int) bool { return c.funcKey(all[i])+all[i].Name() < c.funcKey(all[j])+all[j].Name() })
	var obs []*Obligation
	for _, f := range all {
		obs = append(obs, c.lockFlowFunc(f)...)
	}
	return obs
}
