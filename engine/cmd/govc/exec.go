package main

// Lowering of go/ssa (naive form) functions to verification conditions by forward
// symbolic execution over the loop-cut CFG with state merging at joins.

import (
	"os"
	"fmt"
	"go/ast"
	"go/constant"
	"go/token"
	"go/types"
	"math"
	"sort"
	"strconv"
	"strings"

	"golang.org/x/tools/go/ssa"
)

type LocKind int

const (
	LCell LocKind = iota
	LHeap
	LElem
	LFrozen // element of a frozen (never written, never escaping) global slice literal
	LGlobal
)

type Step struct {
	Field int    // >=0: struct field index
	Name  string // field name
	Idx   string // array index term when Field<0
	Ty    types.Type
}

// Loc is a statically tracked memory location: a root (local cell, heap object,
// backing-array element, global) plus a path of field/array-index steps.
type Loc struct {
	Kind   LocKind
	Cell   *cellKey
	Global *ssa.Global
	RootTy types.Type // type of the root object (cell type / heap pointee type / element type)
	Ref    string     // LHeap, LElem: object reference term
	Idx    string     // LElem: index in backing array
	Path   []Step
}

type cellKey struct {
	name string
	ty   types.Type
	id   int
}

type Val struct {
	T     string
	Ty    types.Type
	Loc   *Loc
	Tuple []Val
	Fn    *ssa.Function
	Binds []Val // closure bindings
	Bi    *ssa.Builtin
}

type State struct {
	lazyAll   bool            // a callee that may allocate objects of any type was called: heaps first touched later get a fresh version framed below alloc_init
	lazySet   map[string]bool // the same for callees with a typed allocates clause: only these heaps
	sym       *symHeaps // non-nil: heaps are bound variables (definition of a recursive spec function)
	cells     map[*cellKey]string
	heaps     map[string]string
	globals   map[*ssa.Global]string
	alloc     string
	pc        string
	held      map[string]int
	answered  map[string]string // HTTP response writers (by term): ghost state 0 nothing sent, 1 body written, 2 status sent, 3 error answer sent (single-answer obligations)
}

func (s *State) clone() *State {
	n := &State{cells: make(map[*cellKey]string, len(s.cells)), heaps: make(map[string]string, len(s.heaps)),
		globals: make(map[*ssa.Global]string, len(s.globals)), alloc: s.alloc, pc: s.pc, held: map[string]int{}, lazyAll: s.lazyAll, sym: s.sym}
	if len(s.lazySet) > 0 {
		n.lazySet = make(map[string]bool, len(s.lazySet))
		for k := range s.lazySet {
			n.lazySet[k] = true
		}
	}
	for k, v := range s.cells {
		n.cells[k] = v
	}
	for k, v := range s.heaps {
		n.heaps[k] = v
	}
	for k, v := range s.globals {
		n.globals[k] = v
	}
	for k, v := range s.held {
		n.held[k] = v
	}
	if len(s.answered) > 0 {
		n.answered = make(map[string]string, len(s.answered))
		for k, v := range s.answered {
			n.answered[k] = v
		}
	}
	return n
}

// Unit is one function verified against its contract.
type Unit struct {
	ctx          *Ctx
	em           *Emitter
	fn           *ssa.Function
	con          *Contract
	heapTy       map[string]types.Type
	frozenDecl   map[string]bool
	topBinds     []Val
	curFrame     *Frame
	copyRefs     map[string]string // objects modelling read-only copies of embedded arrays
	calleeAllocAny   bool            // some callee may allocate objects of any type
	calledNames      map[string]bool // function names asked about by called(F) in this unit's contract (nil: not yet collected)
	calleeAllocNames map[string]bool // heaps in which callees with a typed allocates clause may allocate
	cellN        int
	obSeen       map[string]int
	entry        *State
	params       map[string]Val
	errs         []string // out-of-subset messages
	arith        bool
	nowrap       bool
	abstract     bool // tolerate unsupported instructions by havoc (safety sweep mode)
	depthMax     int
	lockLog      []string
	extUsed      map[string]bool
	staticCells  map[*cellKey]Val
	pendingBinds []Val
	qn           int
	topParams    map[string]Val
	frameExtra   []specLoc
	vacN         int
	lin          map[string]linForm
	pendLin      *linForm
	litLen       map[string]int
	divCache     map[string][2]string
	recDefs      map[string]*recDef
	lockState    *State
	frameSkip    map[string]bool
	onReturn     func(f *Frame, st *State, vals []Val, k int, pos token.Pos)
}

type Frame struct {
	u          *Unit
	fn         *ssa.Function
	vals       map[ssa.Value]Val
	cells      map[*ssa.Alloc]*cellKey
	depth      int
	defers     []*ssa.Defer
	prefix     string // obligation name prefix for inlined frames
	entry      *State
	paramV     map[string]Val
	resNames   []string
	pure       bool // spec/inlined-in-spec context: no obligations
	edgeGuard  map[[2]int]string
	loopLimit  map[int]token.Pos
	heapLocals map[string]Val // named locals that live on the heap (address taken)
	envPos     token.Pos      // program point for name resolution in call-site / exit environments
	rangeIt    map[ssa.Value]*mapRange // range-over-map iterators
}

func (u *Unit) errf(format string, a ...any) {
	msg := fmt.Sprintf(format, a...)
	for _, e := range u.errs {
		if e == msg {
			return
		}
	}
	if len(u.errs) < 40 {
		u.errs = append(u.errs, msg)
	}
}

func (u *Unit) heapInit(name string, t types.Type) string {
	n := name + "_init"
	u.heapTy[name] = t
	u.em.pre(fmt.Sprintf("(declare-const %s %s)", n, u.heapSortU(name, t)))
	if ax := u.heapAxiom(name, n, t, "alloc_init"); ax != "" {
		u.em.pre("(assert " + ax + ")")
	}
	return n
}

// heapAxiom: every object in a freshly introduced heap map is a well-typed value
// whose references were allocated before (<= alloc).
func (u *Unit) heapAxiom(name, term string, t types.Type, alloc string) string {
	if strings.HasPrefix(name, "M_") || strings.HasPrefix(name, "VM_") {
		return ""
	}
	st := &State{alloc: alloc}
	if strings.HasPrefix(name, "E_") {
		sel := fmt.Sprintf("(select (select %s r) i)", term)
		inv := u.valInv(sel, t, st)
		if inv == "" || inv == "true" {
			return ""
		}
		return fmt.Sprintf("(forall ((r Int) (i Int)) (! %s :pattern (%s)))", inv, sel)
	}
	sel := fmt.Sprintf("(select %s r)", term)
	inv := u.valInvDeep(sel, t, st)
	if inv == "" || inv == "true" {
		return ""
	}
	return fmt.Sprintf("(forall ((r Int)) (! %s :pattern (%s)))", inv, sel)
}

// valInvDeep is valInv plus allocation bounds for references nested in structs.
func (u *Unit) valInvDeep(term string, ty types.Type, st *State) string {
	inv := u.valInv(term, ty, st)
	if stt, ok := ty.Underlying().(*types.Struct); ok {
		sn := u.em.sortOf(ty)
		for i := 0; i < stt.NumFields(); i++ {
			f := stt.Field(i)
			switch f.Type().Underlying().(type) {
			case *types.Pointer, *types.Map, *types.Slice, *types.Struct:
				sub := fmt.Sprintf("(%s %s)", u.em.fieldSel(sn, f.Name(), i), term)
				inv = and(inv, u.valInvDeep(sub, f.Type(), st))
			}
		}
	}
	return inv
}

type symHeaps struct {
	names []string
	tys   map[string]types.Type
}

func (u *Unit) heapGet(st *State, name string, t types.Type) string {
	if st.sym != nil {
		if _, ok := st.sym.tys[name]; !ok {
			st.sym.tys[name] = t
			st.sym.names = append(st.sym.names, name)
			sort.Strings(st.sym.names)
		}
		u.heapTy[name] = t
		return "hv_" + name
	}
	if v, ok := st.heaps[name]; ok {
		return v
	}
	v := u.heapInit(name, t)
	if (st.lazyAll || st.lazySet[name]) && !strings.HasPrefix(name, "M_") && !strings.HasPrefix(name, "VM_") {
		// objects allocated by callees since function entry are not described by the initial heap
		// (a heap that was never touched holds no object this unit allocated itself: every object it
		// knows of existed at entry)
		h1 := u.em.fresh(name, u.heapSortU(name, t))
		u.em.assert(fmt.Sprintf("(forall ((r Int)) (! (=> (<= r %s) (= (select %s r) (select %s r))) :pattern ((select %s r))))", "alloc_init", h1, v, h1))
		if ax := u.heapAxiom(name, h1, t, st.alloc); ax != "" {
			u.em.assert(ax)
		}
		st.heaps[name] = h1
		return h1
	}
	return v
}

// noCopyWrite: a write into backing array ref must not hit an object that models a
// read-only copy of an embedded array (the write would be lost in the model).
func (u *Unit) noCopyWrite(st *State, ref string) {
	if len(u.copyRefs) == 0 {
		return
	}
	var ne []string
	for _, r := range sortedKeys(u.copyRefs) {
		ne = append(ne, fmt.Sprintf("(=> %s (not (= %s %s)))", u.copyRefs[r], ref, r))
	}
	u.oblige(u.curFrame, st, "copy-write", "write through slice of embedded array", and(ne...), token.NoPos)
}

// frozenFn declares (once) the content function of a frozen global slice literal.
func (u *Unit) frozenFn(g *ssa.Global) string {
	n := "fz_" + sanitize(g.Pkg.Pkg.Name()+"_"+g.Name())
	if u.frozenDecl == nil {
		u.frozenDecl = map[string]bool{}
	}
	if !u.frozenDecl[n] {
		u.frozenDecl[n] = true
		cs, _ := u.ctx.frozenGlobal(g)
		body := "0"
		for i := len(cs) - 1; i >= 0; i-- {
			body = fmt.Sprintf("(ite (= i %d) %s %s)", i, cs[i], body)
		}
		u.em.pre(fmt.Sprintf("(define-fun %s ((i Int)) Int %s)", n, body))
	}
	return n
}

func (u *Unit) heapSet(st *State, name string, t types.Type, term string) {
	u.heapTy[name] = t
	st.heaps[name] = u.em.define(name, u.heapSortU(name, t), term)
}

func (u *Unit) globalGet(st *State, g *ssa.Global) string {
	if v, ok := st.globals[g]; ok {
		return v
	}
	ty := g.Type().(*types.Pointer).Elem()
	n := "G_" + sanitize(g.Pkg.Pkg.Name()+"_"+g.Name())
	u.em.pre(fmt.Sprintf("(declare-const %s %s)", n, u.em.sortOf(ty)))
	if inv := u.valInvDeep(n, ty, &State{alloc: "alloc_init"}); inv != "" && inv != "true" {
		u.em.pre("(assert " + inv + ")")
	}
	if cs, ok := u.ctx.frozenGlobal(g); ok {
		u.em.pre(fmt.Sprintf("(assert (and (= (s_len %s) %d) (= (s_cap %s) %d) (= (s_off %s) 0) (> (s_base %s) 0)))", n, len(cs), n, len(cs), n, n))
	}
	if u.ctx.isSentinelError(g) {
		u.em.pre(fmt.Sprintf("(assert (> %s 0))", n))
		u.em.pre(fmt.Sprintf("(assert (= (itype %s) %d))", n, u.em.typeTag(types.Typ[types.UnsafePointer])))
		u.em.pre(fmt.Sprintf("(declare-fun sentinelId (Int) Int)"))
		u.em.pre(fmt.Sprintf("(assert (= (sentinelId %s) %d))", n, u.ctx.sentinelIndex(g)))
	}
	return n
}

// ---------------------------------------------------------------------------
// obligations

func (u *Unit) oblige(f *Frame, st *State, kind, text, goal string, pos token.Pos) {
	if f != nil && f.pure {
		return
	}
	if goal == "true" {
		return
	}
	if u.con != nil && u.con.Wiring && !u.con.Keep[kind] && !(f != nil && f.depth == 0 && u.con.KeepText[kind][text]) && !(kind == "pre" && os.Getenv("GOVC_WIRING_PRE") != "") {
		switch kind {
		case "index", "nil", "slice", "divzero", "makeslice", "typeassert", "nilmap", "arith", "wrap", "pre", "panic", "guarded-read", "guarded-write", "unlock-unheld", "double-lock", "single-answer":
			// wiring-only unit: memory safety of this function is not claimed
			return
		}
	}
	if parts := splitAnd(goal); len(parts) > 1 && (kind == "ensures" || kind == "inv-entry" || kind == "inv-preserved" || kind == "pre" || kind == "assert") {
		for i, p := range parts {
			u.oblige(f, st, kind, fmt.Sprintf("%s/%d", text, i+1), p, pos)
		}
		return
	}
	name := u.unitName() + "#" + kind + "#" + f.prefix + text
	u.obSeen[name]++
	if c := u.obSeen[name]; c > 1 {
		name = fmt.Sprintf("%s@%d", name, c)
	}
	ob := &Obligation{Name: name, Kind: kind, At: len(u.em.lines), PC: st.pc, Goal: goal, Func: u.unitName(), Unit: u}
	if pos.IsValid() {
		p := u.ctx.fset.Position(pos)
		ob.Pos = fmt.Sprintf("%s:%d", p.Filename, p.Line)
	}
	u.em.obls = append(u.em.obls, ob)
	// afterwards it may be assumed (execution continues only if it held)
	switch kind {
	case "guarded-read", "guarded-write", "unlock-unheld", "double-lock", "unguarded", "errwrap":
		return
	}
	u.em.assert(implies(st.pc, goal))
}

func (u *Unit) assume(st *State, c string) {
	if c == "" || c == "true" {
		return
	}
	u.em.assert(implies(st.pc, c))
}

func (u *Unit) unitName() string {
	if u.fn == nil {
		return "lockflow"
	}
	return u.ctx.funcKey(u.fn)
}

// exprText returns the source text at the instruction position (for names).
func (u *Unit) exprText(pos token.Pos, fallback string) string {
	if !pos.IsValid() {
		return fallback
	}
	if s := u.ctx.nodeTextAt(pos); s != "" {
		return s
	}
	return fallback
}

// ---------------------------------------------------------------------------
// locations

func (u *Unit) rootTerm(st *State, l *Loc) string {
	switch l.Kind {
	case LCell:
		v, ok := st.cells[l.Cell]
		if !ok {
			// uninitialised cell: zero value
			v = u.em.zeroOf(l.Cell.ty)
			st.cells[l.Cell] = v
		}
		return v
	case LHeap:
		if arr, ok := l.RootTy.Underlying().(*types.Array); ok {
			// array objects live in the backing-array heap of their element type
			h := u.heapGet(st, u.em.elemHeapName(arr.Elem()), arr.Elem())
			return fmt.Sprintf("(select %s %s)", h, l.Ref)
		}
		h := u.heapGet(st, u.em.heapName(l.RootTy), l.RootTy)
		return fmt.Sprintf("(select %s %s)", h, l.Ref)
	case LElem:
		h := u.heapGet(st, u.em.elemHeapName(l.RootTy), l.RootTy)
		return fmt.Sprintf("(select (select %s %s) %s)", h, l.Ref, l.Idx)
	case LGlobal:
		return u.globalGet(st, l.Global)
	case LFrozen:
		return fmt.Sprintf("(%s %s)", u.frozenFn(l.Global), l.Idx)
	}
	panic("rootTerm")
}

func (u *Unit) setRoot(st *State, l *Loc, v string) {
	switch l.Kind {
	case LCell:
		st.cells[l.Cell] = u.em.define(l.Cell.name, u.em.sortOf(l.Cell.ty), v)
	case LHeap:
		if arr, ok := l.RootTy.Underlying().(*types.Array); ok {
			n := u.em.elemHeapName(arr.Elem())
			h := u.heapGet(st, n, arr.Elem())
			u.heapSet(st, n, arr.Elem(), fmt.Sprintf("(store %s %s %s)", h, l.Ref, v))
			return
		}
		n := u.em.heapName(l.RootTy)
		h := u.heapGet(st, n, l.RootTy)
		u.heapSet(st, n, l.RootTy, fmt.Sprintf("(store %s %s %s)", h, l.Ref, v))
	case LElem:
		u.noCopyWrite(st, l.Ref)
		n := u.em.elemHeapName(l.RootTy)
		h := u.heapGet(st, n, l.RootTy)
		u.heapSet(st, n, l.RootTy, fmt.Sprintf("(store %s %s (store (select %s %s) %s %s))", h, l.Ref, h, l.Ref, l.Idx, v))
	case LGlobal:
		ty := l.Global.Type().(*types.Pointer).Elem()
		st.globals[l.Global] = u.em.define("G_"+l.Global.Name(), u.em.sortOf(ty), v)
	}
}

func (u *Unit) project(term string, ty types.Type, path []Step) string {
	for _, s := range path {
		if s.Field >= 0 {
			sn := u.em.sortOf(ty)
			term = u.em.sel(sn, s.Name, s.Field, term)
		} else {
			term = fmt.Sprintf("(select %s %s)", term, s.Idx)
		}
		ty = s.Ty
	}
	return term
}

func (u *Unit) updatePath(term string, ty types.Type, path []Step, v string) string {
	if len(path) == 0 {
		return v
	}
	s := path[0]
	if s.Field >= 0 {
		st := ty.Underlying().(*types.Struct)
		sn := u.em.sortOf(ty)
		var fs []string
		for i := 0; i < st.NumFields(); i++ {
			sel := u.em.sel(sn, st.Field(i).Name(), i, term)
			if i == s.Field {
				fs = append(fs, u.updatePath(sel, s.Ty, path[1:], v))
			} else {
				fs = append(fs, sel)
			}
		}
		return fmt.Sprintf("(mk_%s %s)", sn, strings.Join(fs, " "))
	}
	inner := fmt.Sprintf("(select %s %s)", term, s.Idx)
	return fmt.Sprintf("(store %s %s %s)", term, s.Idx, u.updatePath(inner, s.Ty, path[1:], v))
}

func (l *Loc) ty() types.Type {
	if len(l.Path) > 0 {
		return l.Path[len(l.Path)-1].Ty
	}
	return l.RootTy
}

func (u *Unit) loadLoc(st *State, l *Loc) string {
	return u.project(u.rootTerm(st, l), l.RootTy, l.Path)
}

func (u *Unit) storeLoc(st *State, l *Loc, v string) {
	if len(l.Path) == 0 {
		u.setRoot(st, l, v)
		return
	}
	root := u.rootTerm(st, l)
	if !isAtom(root) && l.Kind != LCell {
		root = u.em.define("root", u.em.sortOf(l.RootTy), root)
	}
	u.setRoot(st, l, u.updatePath(root, l.RootTy, l.Path, v))
}

// locOf turns a pointer value into a location.
func (u *Unit) locOf(f *Frame, st *State, p Val, pos token.Pos, what string) *Loc {
	if p.Loc != nil {
		return p.Loc
	}
	pt, ok := p.Ty.Underlying().(*types.Pointer)
	if !ok {
		u.errf("locOf: not a pointer: %s", p.Ty)
		return &Loc{Kind: LHeap, RootTy: types.Typ[types.Int], Ref: "0"}
	}
	u.oblige(f, st, "nil", what, fmt.Sprintf("(not (= %s 0))", p.T), pos)
	return &Loc{Kind: LHeap, RootTy: pt.Elem(), Ref: p.T}
}

// ---------------------------------------------------------------------------
// running a function

type edgeState struct {
	st    *State
	guard string
}

func (u *Unit) newCell(name string, ty types.Type) *cellKey {
	u.cellN++
	return &cellKey{name: name, ty: ty, id: u.cellN}
}

func (u *Unit) freshVal(hint string, ty types.Type, st *State) Val {
	if tup, ok := ty.(*types.Tuple); ok {
		var vs []Val
		for i := 0; i < tup.Len(); i++ {
			vs = append(vs, u.freshVal(fmt.Sprintf("%s_%d", hint, i), tup.At(i).Type(), st))
		}
		return Val{Tuple: vs, Ty: ty}
	}
	n := u.em.fresh(hint, u.em.sortOf(ty))
	u.assume(st, u.valInvDeep(n, ty, st))
	return Val{T: n, Ty: ty}
}

// valInv: type invariant + allocation bound for reference-like values.
func (u *Unit) valInv(term string, ty types.Type, st *State) string {
	inv := u.em.typeInv(term, ty)
	switch ty.Underlying().(type) {
	case *types.Pointer, *types.Map:
		inv = and(inv, fmt.Sprintf("(<= %s %s)", term, st.alloc))
	case *types.Slice:
		inv = and(inv, fmt.Sprintf("(<= (s_base %s) %s)", term, st.alloc))
	}
	return inv
}

type retInfo struct {
	st   *State
	vals []Val
}

// runFunc symbolically executes fn from state st with the given arguments.
// It returns the merged state at return and the result values.
func (u *Unit) runFunc(fn *ssa.Function, args []Val, st *State, parent *Frame, prefix string, top bool) ([]Val, *State) {
	f := &Frame{u: u, fn: fn, vals: map[ssa.Value]Val{}, cells: map[*ssa.Alloc]*cellKey{}, prefix: prefix}
	if parent != nil {
		f.depth = parent.depth + 1
		f.pure = parent.pure
	}
	if fn.Blocks == nil {
		u.errf("no body for %s", fn)
		return nil, st
	}
	f.paramV = map[string]Val{}
	for i, p := range fn.Params {
		if i < len(args) {
			f.vals[p] = args[i]
			f.paramV[p.Name()] = args[i]
		}
	}
	binds := u.pendingBinds
	u.pendingBinds = nil
	for i, fv := range fn.FreeVars {
		if i < len(binds) {
			f.vals[fv] = binds[i]
			if top && binds[i].T != "" {
				if f.heapLocals == nil {
					f.heapLocals = map[string]Val{}
				}
				f.heapLocals[fv.Name()] = binds[i]
			}
		}
	}
	f.edgeGuard = map[[2]int]string{}
	f.entry = st.clone()
	con := u.ctx.contractFor(fn)
	if top {
		con = u.con
	}

	// loop structure
	nb := len(fn.Blocks)
	isBack := map[[2]int]bool{}
	headers := map[int]bool{}
	for _, b := range fn.Blocks {
		for _, s := range b.Succs {
			if s.Dominates(b) {
				isBack[[2]int{b.Index, s.Index}] = true
				headers[s.Index] = true
			}
		}
	}
	var hdrList []int
	for h := range headers {
		hdrList = append(hdrList, h)
	}
	sort.Ints(hdrList)
	loopOrd, loopNode := u.loopOrdinals(fn, hdrList, isBack)
	f.loopLimit = map[int]token.Pos{}
	for h, n := range loopNode {
		switch l := n.(type) {
		case *ast.ForStmt:
			f.loopLimit[h] = l.Body.Pos()
		case *ast.RangeStmt:
			f.loopLimit[h] = l.Body.Pos()
		}
	}
	// topological order (reverse postorder ignoring back edges)
	visited := make([]bool, nb)
	var order []int
	var dfs func(b *ssa.BasicBlock)
	dfs = func(b *ssa.BasicBlock) {
		visited[b.Index] = true
		for _, s := range b.Succs {
			if isBack[[2]int{b.Index, s.Index}] || visited[s.Index] {
				continue
			}
			dfs(s)
		}
		order = append(order, b.Index)
	}
	dfs(fn.Blocks[0])
	for i, j := 0, len(order)-1; i < j; i, j = i+1, j-1 {
		order[i], order[j] = order[j], order[i]
	}

	in := map[int][]edgeState{}
	inPred := map[int][]int{}
	in[0] = []edgeState{{st: st, guard: st.pc}}
	inPred[0] = []int{-1}
	var rets []retInfo
	type loopCtx struct {
		head       *State
		variant    string
		ord        int
		frameHeaps []string
	}
	loops := map[int]*loopCtx{}

	for _, bi := range order {
		b := fn.Blocks[bi]
		ins := in[bi]
		if len(ins) == 0 {
			continue // unreachable
		}
		cur := u.merge(ins)
		for k, p := range inPred[bi] {
			f.edgeGuard[[2]int{p, bi}] = ins[k].guard
		}
		if headers[bi] {
			ord := loopOrd[bi]
			var ls *LoopSpec
			if con != nil {
				ls = con.Loops[ord]
			}
			body := naturalLoop(fn, bi, isBack)
			lc := &loopCtx{ord: ord}
			loops[bi] = lc
			// 1. invariant on entry
			if ls != nil {
				for _, ux := range ls.EntryUses {
					u.useLemma(f, cur, u.loopEnv(f, cur, fn, bi), ux)
				}
				for _, inv := range ls.Invariants {
					t := u.specLoop(f, cur, inv.Expr, fn, bi)
					u.oblige(f, cur, "inv-entry", fmt.Sprintf("loop%d:%s", ord, inv.label()), t, token.NoPos)
				}
			} else if !f.pure && !u.abstract {
				u.errf("%s: loop %d has no invariant", u.ctx.funcKey(fn), ord)
			}
			// implicit loop frame: the function's frame condition holds at every iteration
			if top && con != nil && !con.AssignsAll && !con.NoFrame {
				lc.frameHeaps = u.havocLoop(f, cur, fn, body, false)
				for _, hn := range lc.frameHeaps {
					if g := u.frameGoal(hn, cur, u.entry, con); g != "" {
						u.oblige(f, cur, "loopframe-entry", fmt.Sprintf("loop%d:%s", ord, hn), g, token.NoPos)
					}
				}
			}
			// 2. havoc
			u.havocLoop(f, cur, fn, body, true)
			for _, hn := range lc.frameHeaps {
				u.assume(cur, u.frameGoal(hn, cur, u.entry, con))
			}
			// 3. assume invariant
			if ls != nil {
				for _, inv := range ls.Invariants {
					u.assume(cur, u.specLoop(f, cur, inv.Expr, fn, bi))
				}
				for _, ux := range ls.Uses {
					u.useLemma(f, cur, u.loopEnv(f, cur, fn, bi), ux)
				}
				if ls.Decreases != nil {
					v := u.specLoop(f, cur, ls.Decreases, fn, bi)
					lc.variant = u.em.define("variant", "Int", v)
				}
			}
			lc.head = cur.clone()
		}
		// instructions
		terminated := false
		for _, ins := range b.Instrs {
			switch x := ins.(type) {
			case *ssa.If, *ssa.Jump:
			case *ssa.Return:
				var vs []Val
				for _, r := range x.Results {
					vs = append(vs, u.value(f, cur, r))
				}
				if top && u.onReturn != nil {
					u.onReturn(f, cur, vs, len(rets), x.Pos())
				}
				rets = append(rets, retInfo{st: cur, vals: vs})
				terminated = true
			case *ssa.Panic:
				if !f.pure {
					u.oblige(f, cur, "panic", u.exprText(x.Pos(), "panic"), "false", x.Pos())
				}
				terminated = true
			default:
				u.instr(f, cur, ins)
			}
			if terminated {
				break
			}
		}
		if terminated {
			continue
		}
		// successors
		last := b.Instrs[len(b.Instrs)-1]
		var conds []string
		switch x := last.(type) {
		case *ssa.If:
			c := u.value(f, cur, x.Cond).T
			conds = []string{c, not(c)}
		case *ssa.Jump:
			conds = []string{"true"}
		}
		for k, s := range b.Succs {
			g := and(cur.pc, conds[k])
			if isBack[[2]int{bi, s.Index}] {
				lc := loops[s.Index]
				bs := cur.clone()
				bs.pc = u.em.define("pc", "Bool", g)
				var ls *LoopSpec
				if con != nil {
					ls = con.Loops[lc.ord]
				}
				// the HTTP answer ghost state is kept across the loop cut: an iteration that goes
				// round must leave it as it found it (answers inside loops end in a return)
				if lc.head != nil {
					aks := map[string]bool{}
					for k := range bs.answered {
						aks[k] = true
					}
					for k := range lc.head.answered {
						aks[k] = true
					}
					for _, k := range sortedKeys(aks) {
						if strings.HasPrefix(k, "called:") {
							continue
						}
						hv, bv := "0", "0"
						if v, ok := lc.head.answered[k]; ok {
							hv = v
						}
						if v, ok := bs.answered[k]; ok {
							bv = v
						}
						if hv != bv {
							u.oblige(f, bs, "single-answer", fmt.Sprintf("loop%d: answered inside the loop without leaving it", lc.ord), fmt.Sprintf("(= %s %s)", bv, hv), token.NoPos)
						}
					}
				}
				if ls != nil {
					bpos := token.NoPos
					for _, pi := range b.Instrs {
						if _, dbg := pi.(*ssa.DebugRef); !dbg && pi.Pos().IsValid() {
							bpos = pi.Pos()
						}
					}
					for _, inv := range ls.Invariants {
						t := u.specLoop(f, bs, inv.Expr, fn, s.Index)
						u.oblige(f, bs, "inv-preserved", fmt.Sprintf("loop%d:%s", lc.ord, inv.label()), t, bpos)
					}
					for _, hn := range lc.frameHeaps {
						if g := u.frameGoal(hn, bs, u.entry, con); g != "" {
							u.oblige(f, bs, "loopframe", fmt.Sprintf("loop%d:%s", lc.ord, hn), g, token.NoPos)
						}
					}
					if ls.Decreases != nil {
						v := u.specLoop(f, bs, ls.Decreases, fn, s.Index)
						u.oblige(f, bs, "decreases", fmt.Sprintf("loop%d", lc.ord), fmt.Sprintf("(and (<= 0 %s) (< %s %s))", lc.variant, v, lc.variant), token.NoPos)
					}
				}
				continue
			}
			ns := cur
			if len(b.Succs) > 1 {
				ns = cur.clone()
			}
			gname := u.em.define("pc", "Bool", g)
			ns.pc = gname
			in[s.Index] = append(in[s.Index], edgeState{st: ns, guard: gname})
			inPred[s.Index] = append(inPred[s.Index], bi)
		}
	}
	f.vals = nil
	if len(rets) == 0 {
		dead := st.clone()
		dead.pc = "false"
		return nil, dead
	}
	// merge returns
	var es []edgeState
	for _, r := range rets {
		es = append(es, edgeState{st: r.st, guard: r.st.pc})
	}
	out := u.merge(es)
	nres := len(rets[0].vals)
	res := make([]Val, nres)
	for i := 0; i < nres; i++ {
		res[i] = u.mergeVals(rets, i)
	}
	return res, out
}

func (u *Unit) mergeVals(rets []retInfo, i int) Val {
	first := rets[0].vals[i]
	same := true
	for _, r := range rets[1:] {
		if r.vals[i].T != first.T {
			same = false
		}
	}
	if same {
		return first
	}
	n := u.em.fresh("ret", u.em.sortOf(first.Ty))
	for _, r := range rets {
		if r.vals[i].T == "" {
			u.errf("cannot merge non-term return value of type %s", first.Ty)
			continue
		}
		u.em.assert(implies(r.st.pc, fmt.Sprintf("(= %s %s)", n, r.vals[i].T)))
	}
	return Val{T: n, Ty: first.Ty}
}

func (u *Unit) merge(ins []edgeState) *State {
	if len(ins) == 1 {
		s := ins[0].st
		s.pc = ins[0].guard
		return s
	}
	out := ins[0].st.clone()
	var gs []string
	for _, e := range ins {
		gs = append(gs, e.guard)
	}
	out.pc = u.em.define("pc", "Bool", or(gs...))
	// cells
	keys := map[*cellKey]bool{}
	for _, e := range ins {
		for k := range e.st.cells {
			keys[k] = true
		}
	}
	var klist []*cellKey
	for k := range keys {
		klist = append(klist, k)
	}
	sort.Slice(klist, func(i, j int) bool { return klist[i].id < klist[j].id })
	for _, k := range klist {
		first, ok0 := ins[0].st.cells[k]
		same := ok0
		for _, e := range ins[1:] {
			if v, ok := e.st.cells[k]; !ok || v != first {
				same = false
			}
		}
		if same {
			continue
		}
		n := u.em.fresh(k.name, u.em.sortOf(k.ty))
		for _, e := range ins {
			v, ok := e.st.cells[k]
			if !ok {
				v = u.em.zeroOf(k.ty)
			}
			u.em.assert(implies(e.guard, fmt.Sprintf("(= %s %s)", n, v)))
		}
		out.cells[k] = n
	}
	// heaps
	hk := map[string]bool{}
	for _, e := range ins {
		for k := range e.st.heaps {
			hk[k] = true
		}
	}
	for _, k := range sortedKeys(hk) {
		ty := u.heapTy[k]
		first := u.heapGet(ins[0].st, k, ty)
		same := true
		for _, e := range ins[1:] {
			if u.heapGet(e.st, k, ty) != first {
				same = false
			}
		}
		if same {
			out.heaps[k] = first
			continue
		}
		n := u.em.fresh(k, u.heapSortU(k, ty))
		for _, e := range ins {
			u.em.assert(implies(e.guard, fmt.Sprintf("(= %s %s)", n, u.heapGet(e.st, k, ty))))
		}
		out.heaps[k] = n
	}
	// globals
	gk := map[*ssa.Global]bool{}
	for _, e := range ins {
		for k := range e.st.globals {
			gk[k] = true
		}
	}
	for g := range gk {
		first := u.globalGet(ins[0].st, g)
		same := true
		for _, e := range ins[1:] {
			if u.globalGet(e.st, g) != first {
				same = false
			}
		}
		if same {
			out.globals[g] = first
			continue
		}
		ty := g.Type().(*types.Pointer).Elem()
		n := u.em.fresh("G_"+g.Name(), u.em.sortOf(ty))
		for _, e := range ins {
			u.em.assert(implies(e.guard, fmt.Sprintf("(= %s %s)", n, u.globalGet(e.st, g))))
		}
		out.globals[g] = n
	}
	// callees that allocate: heaps first touched after the merge
	for _, e := range ins[1:] {
		if e.st.lazyAll {
			out.lazyAll = true
		}
		for k := range e.st.lazySet {
			if out.lazySet == nil {
				out.lazySet = map[string]bool{}
			}
			out.lazySet[k] = true
		}
	}
	// alloc
	same := true
	for _, e := range ins[1:] {
		if e.st.alloc != ins[0].st.alloc {
			same = false
		}
	}
	if !same {
		n := u.em.fresh("alloc", "Int")
		for _, e := range ins {
			u.em.assert(implies(e.guard, fmt.Sprintf("(= %s %s)", n, e.st.alloc)))
		}
		out.alloc = n
	}
	// HTTP answer ghost state
	ak := map[string]bool{}
	for _, e := range ins {
		for k := range e.st.answered {
			ak[k] = true
		}
	}
	for _, k := range sortedKeys(ak) {
		get := func(s *State) string {
			if v, ok := s.answered[k]; ok {
				return v
			}
			return "0"
		}
		first := get(ins[0].st)
		same := true
		for _, e := range ins[1:] {
			if get(e.st) != first {
				same = false
			}
		}
		if out.answered == nil {
			out.answered = map[string]string{}
		}
		if same {
			out.answered[k] = first
			continue
		}
		n := u.em.fresh("answered", "Int")
		for _, e := range ins {
			u.em.assert(implies(e.guard, fmt.Sprintf("(= %s %s)", n, get(e.st))))
		}
		out.answered[k] = n
	}
	// locks: keep only those equal on all paths
	for k, v := range out.held {
		for _, e := range ins[1:] {
			if e.st.held[k] != v {
				out.held[k] = -1 // inconsistent
			}
		}
	}
	return out
}

func naturalLoop(fn *ssa.Function, h int, isBack map[[2]int]bool) map[int]bool {
	body := map[int]bool{h: true}
	var stack []int
	for _, b := range fn.Blocks {
		if isBack[[2]int{b.Index, h}] {
			if !body[b.Index] {
				body[b.Index] = true
				stack = append(stack, b.Index)
			}
		}
	}
	for len(stack) > 0 {
		n := stack[len(stack)-1]
		stack = stack[:len(stack)-1]
		for _, p := range fn.Blocks[n].Preds {
			if !body[p.Index] {
				body[p.Index] = true
				stack = append(stack, p.Index)
			}
		}
	}
	return body
}

// mapRange: state of a `for k, v := range m` loop.  The ghost set of visited keys is an
// integer version v with membership predicate (rangeVisited_<K> v k).
type mapRange struct {
	m    Val
	mt   *types.Map
	cell *cellKey // holds the current version
	pred string
}

// havocLoop replaces everything the loop body may modify by fresh values.
func (u *Unit) havocLoop(f *Frame, st *State, fn *ssa.Function, body map[int]bool, apply bool) []string {
	cells := map[*cellKey]bool{}
	heaps := map[string]types.Type{}
	globals := map[*ssa.Global]bool{}
	allHeaps := false
	allocs := false
	for bi := range body {
		for _, ins := range fn.Blocks[bi].Instrs {
			switch x := ins.(type) {
			case *ssa.Store:
				u.writeTarget(f, x.Addr, cells, heaps, globals)
			case *ssa.MapUpdate:
				mt := x.Map.Type().Underlying().(*types.Map)
				heaps[u.mapHeapName(mt)] = mt
			case *ssa.Next:
				if it, ok := f.rangeIt[x.Iter]; ok {
					cells[it.cell] = true
				}
			case *ssa.Alloc:
				if x.Heap {
					allocs = true
				} else if c, ok := f.cells[x]; ok {
					cells[c] = true
				}
			case *ssa.MakeSlice, *ssa.MakeMap, *ssa.MakeInterface:
				allocs = true
			case ssa.CallInstruction:
				cc := x.Common()
				allocs = true
				if bi, ok := cc.Value.(*ssa.Builtin); ok {
					switch bi.Name() {
					case "copy", "append":
						if sl, ok := cc.Args[0].Type().Underlying().(*types.Slice); ok {
							heaps[u.em.elemHeapName(sl.Elem())] = sl.Elem()
						}
					case "delete":
						mt := cc.Args[0].Type().Underlying().(*types.Map)
						heaps[u.mapHeapName(mt)] = mt
					}
					continue
				}
				// the callee: static, a closure value known in this frame, or (interface method,
				// func-typed field) only a declared extern contract
				callee := cc.StaticCallee()
				var econ *Contract
				if cc.IsInvoke() {
					callee = nil
					econ = u.ctx.externs[u.ctx.ifaceKey(cc)]
				} else if callee == nil {
					if v, ok := f.vals[cc.Value]; ok && v.Fn != nil {
						callee = v.Fn
					} else if fk := fieldFuncKey(cc.Value); fk != "" {
						econ = u.ctx.externs[fk]
					}
				}
				if econ != nil {
					hs := map[string]types.Type{}
					u.ctx.assignHeaps(u, econ, nil, hs)
					if _, star := hs["*"]; star || econ.AssignsAll {
						allHeaps = true
					}
					for k, t := range hs {
						heaps[k] = t
					}
					u.ctx.assignGlobals(econ, nil, globals)
				}
				if callee == nil {
					continue
				}
				hs, all := u.ctx.heapWrites(u, callee, 0)
				if _, star := hs["*"]; all || star {
					allHeaps = true
				}
				for k, t := range hs {
					heaps[k] = t
				}
				for g := range u.ctx.globalWrites(u, callee, 0) {
					globals[g] = true
				}
			}
		}
	}
	if allHeaps {
		for k, t := range u.heapTy {
			heaps[k] = t
		}
	}
	for bi := range body {
		for _, ins := range fn.Blocks[bi].Instrs {
			if nx, ok := ins.(*ssa.Next); ok {
				if it, ok := f.rangeIt[nx.Iter]; ok {
					if _, w := heaps[u.mapHeapName(it.mt)]; w {
						u.errf("range over a map that the loop body may modify is not supported")
					}
				}
			}
		}
	}
	if !apply {
		return sortedKeys(heaps)
	}
	if allocs {
		n := u.em.fresh("alloc", "Int")
		u.assume(st, fmt.Sprintf("(>= %s %s)", n, st.alloc))
		st.alloc = n
	}
	var cl []*cellKey
	for c := range cells {
		cl = append(cl, c)
	}
	sort.Slice(cl, func(i, j int) bool { return cl[i].id < cl[j].id })
	for _, c := range cl {
		n := u.em.fresh(c.name, u.em.sortOf(c.ty))
		st.cells[c] = n
		u.assume(st, u.valInvDeep(n, c.ty, st))
	}
	if allHeaps {
		for k, t := range u.heapTy {
			heaps[k] = t
		}
	}
	var havocked []string
	for _, k := range sortedKeys(heaps) {
		t := heaps[k]
		u.heapTy[k] = t
		if t == nil {
			continue
		}
		st.heaps[k] = u.em.fresh(k, u.heapSortU(k, t))
		havocked = append(havocked, k)
	}
	defer func() {
		for _, k := range havocked {
			if ax := u.heapAxiom(k, st.heaps[k], u.heapTy[k], st.alloc); ax != "" {
				u.em.assert(ax)
			}
		}
	}()
	for g := range globals {
		ty := g.Type().(*types.Pointer).Elem()
		st.globals[g] = u.em.fresh("G_"+g.Name(), u.em.sortOf(ty))
	}
	return sortedKeys(heaps)
}

func (u *Unit) mapHeapName(mt *types.Map) string {
	return "M_" + typeID(mt)
}

// writeTarget statically classifies the target of a store.
func (u *Unit) writeTarget(f *Frame, addr ssa.Value, cells map[*cellKey]bool, heaps map[string]types.Type, globals map[*ssa.Global]bool) {
	for {
		switch a := addr.(type) {
		case *ssa.Alloc:
			if !a.Heap {
				if f != nil {
					if c, ok := f.cells[a]; ok {
						cells[c] = true
					}
				}
				return
			}
			et := a.Type().Underlying().(*types.Pointer).Elem()
			if arr, ok := et.Underlying().(*types.Array); ok {
				heaps[u.em.elemHeapName(arr.Elem())] = arr.Elem()
			} else {
				heaps[u.em.heapName(et)] = et
			}
			return
		case *ssa.FieldAddr:
			// if base is a pointer value (not an address chain) it is a heap object
			if isAddrChain(a.X) {
				addr = a.X
				continue
			}
			et := a.X.Type().Underlying().(*types.Pointer).Elem()
			heaps[u.em.heapName(et)] = et
			return
		case *ssa.IndexAddr:
			switch t := a.X.Type().Underlying().(type) {
			case *types.Slice:
				heaps[u.em.elemHeapName(t.Elem())] = t.Elem()
				return
			case *types.Pointer:
				if isAddrChain(a.X) {
					if al, ok := a.X.(*ssa.Alloc); ok && al.Heap {
						arr := t.Elem().Underlying().(*types.Array)
						heaps[u.em.elemHeapName(arr.Elem())] = arr.Elem()
						return
					}
					addr = a.X
					continue
				}
				arr := t.Elem().Underlying().(*types.Array)
				heaps[u.em.elemHeapName(arr.Elem())] = arr.Elem()
				return
			}
			return
		case *ssa.Global:
			globals[a] = true
			return
		default:
			// pointer value: heap object of pointee type
			if pt, ok := addr.Type().Underlying().(*types.Pointer); ok {
				heaps[u.em.heapName(pt.Elem())] = pt.Elem()
			}
			return
		}
	}
}

func isAddrChain(v ssa.Value) bool {
	switch v.(type) {
	case *ssa.Alloc, *ssa.FieldAddr, *ssa.IndexAddr, *ssa.Global:
		return true
	}
	return false
}

// ---------------------------------------------------------------------------
// values

func (u *Unit) value(f *Frame, st *State, v ssa.Value) Val {
	if x, ok := f.vals[v]; ok {
		return x
	}
	switch c := v.(type) {
	case *ssa.Const:
		return u.constVal(c)
	case *ssa.Global:
		return Val{Ty: c.Type(), Loc: &Loc{Kind: LGlobal, Global: c, RootTy: c.Type().(*types.Pointer).Elem()}}
	case *ssa.Function:
		return Val{Ty: c.Type(), Fn: c, T: "0"}
	case *ssa.Builtin:
		return Val{Ty: c.Type(), Bi: c}
	case *ssa.Parameter:
		u.errf("unbound parameter %s", c.Name())
	case *ssa.FreeVar:
		u.errf("free variable %s not bound (closure not supported here)", c.Name())
		return Val{T: "0", Ty: c.Type()}
	}
	u.errf("value %s (%T) used before definition in %s", v.Name(), v, f.fn.Name())
	return Val{T: u.em.zeroOf(v.Type()), Ty: v.Type()}
}

func (u *Unit) constVal(c *ssa.Const) Val {
	t := c.Type()
	if c.Value == nil {
		return Val{T: u.em.zeroOf(t), Ty: t}
	}
	switch {
	case isBool(t):
		if constant.BoolVal(c.Value) {
			return Val{T: "true", Ty: t}
		}
		return Val{T: "false", Ty: t}
	case isInteger(t):
		return Val{T: intLit(c.Value), Ty: t}
	case isFloat(t):
		// floats are modelled as reals: use the shortest decimal that denotes this float64
		// (0.001 means 1/1000, not its binary rounding)
		v := c.Value
		if f, _ := constant.Float64Val(v); !math.IsInf(f, 0) && !math.IsNaN(f) {
			if d := constant.MakeFromLiteral(strconv.FormatFloat(f, 'g', -1, 64), token.FLOAT, 0); d.Kind() != constant.Unknown {
				v = d
			}
		}
		return Val{T: realLit(v), Ty: t}
	case isString(t):
		return Val{T: u.em.strLit(constant.StringVal(c.Value)), Ty: t}
	}
	u.errf("unsupported constant %s", c)
	return Val{T: "0", Ty: t}
}

func intLit(v constant.Value) string {
	s := constant.ToInt(v).ExactString()
	if strings.HasPrefix(s, "-") {
		return "(- " + s[1:] + ")"
	}
	return s
}

func realLit(v constant.Value) string {
	f := constant.ToFloat(v)
	if f.Kind() != constant.Float && f.Kind() != constant.Int {
		return "0.0"
	}
	num := constant.Num(f).ExactString()
	den := constant.Denom(f).ExactString()
	neg := false
	if strings.HasPrefix(num, "-") {
		neg = true
		num = num[1:]
	}
	s := num + ".0"
	if den != "1" {
		s = "(/ " + num + ".0 " + den + ".0)"
	}
	if neg {
		s = "(- " + s + ")"
	}
	return s
}

// ---------------------------------------------------------------------------
// instructions

func (u *Unit) instr(f *Frame, st *State, ins ssa.Instruction) {
	u.curFrame = f
	switch x := ins.(type) {
	case *ssa.DebugRef:
	case *ssa.Alloc:
		et := x.Type().Underlying().(*types.Pointer).Elem()
		if !x.Heap {
			if _, isArr := et.Underlying().(*types.Array); !isArr {
				c, ok := f.cells[x]
				if !ok {
					name := x.Comment
					if name == "" {
						name = "tmp"
					}
					c = u.newCell(name, et)
					f.cells[x] = c
				}
				st.cells[c] = u.em.zeroOf(et)
				f.vals[x] = Val{Ty: x.Type(), Loc: &Loc{Kind: LCell, Cell: c, RootTy: et}}
				return
			}
		}
		// heap object
		r := u.newRef(st)
		if x.Comment != "" {
			if f.heapLocals == nil {
				f.heapLocals = map[string]Val{}
			}
			f.heapLocals[x.Comment] = Val{T: r, Ty: x.Type()}
		}
		if arr, ok := et.Underlying().(*types.Array); ok {
			n := u.em.elemHeapName(arr.Elem())
			h := u.heapGet(st, n, arr.Elem())
			u.heapSet(st, n, arr.Elem(), fmt.Sprintf("(store %s %s %s)", h, r, u.em.zeroOf(et)))
			f.vals[x] = Val{T: r, Ty: x.Type()}
			return
		}
		n := u.em.heapName(et)
		h := u.heapGet(st, n, et)
		u.heapSet(st, n, et, fmt.Sprintf("(store %s %s %s)", h, r, u.em.zeroOf(et)))
		f.vals[x] = Val{T: r, Ty: x.Type()}
	case *ssa.Store:
		addr := u.value(f, st, x.Addr)
		v := u.value(f, st, x.Val)
		l := u.locOf(f, st, addr, x.Pos(), u.exprText(x.Pos(), "store"))
		if v.T == "" {
			if v.Loc != nil || v.Fn != nil {
				// storing an interior pointer / closure into a cell: keep it statically if the target is a plain cell
				if l.Kind == LCell && len(l.Path) == 0 {
					u.cellStatic(f, l.Cell, v)
					return
				}
			}
			if _, isFn := x.Val.Type().Underlying().(*types.Signature); isFn && u.con != nil && u.con.Wiring {
				// wiring units: a function value stored into memory is opaque (arbitrary value)
				nv := u.freshVal("fnval", x.Val.Type(), st)
				u.storeLoc(st, l, nv.T)
				return
			}
			u.errf("%s: store of non-term value (%s)", u.ctx.funcKey(f.fn), x.Val.Type())
			return
		}
		u.checkGuard(f, st, l, true, x.Pos())
		u.storeLoc(st, l, v.T)
		// `store <assignment text> requires ...`: an assertion right after that assignment
		if u.con != nil && len(u.con.StoreSites) > 0 && f.depth == 0 && f.fn == u.fn && !f.pure {
			txt := u.ctx.assignTextAt(x.Pos())
			if os.Getenv("GOVC_DEBUG_STORE") != "" {
				fmt.Fprintf(os.Stderr, "store text %q\n", txt)
			}
			for _, ss := range u.con.StoreSites {
				if ss.Text != txt {
					continue
				}
				f.envPos = x.Pos() + 1
				env := u.loopEnv(f, st, f.fn, -1)
				f.envPos = token.NoPos
				env.old = f.entry
				env.oldVars = f.paramV
				u.oblige(f, st, "store", txt+":"+ss.Clause.label(), env.boolExpr(ss.Clause.Expr), x.Pos())
			}
		}
	case *ssa.UnOp:
		u.unop(f, st, x)
	case *ssa.BinOp:
		a, b := u.value(f, st, x.X), u.value(f, st, x.Y)
		u.pendLin = nil
		t := u.binop(f, st, x.Op, a, b, x.Type(), x.Pos())
		nm := u.em.define(x.Name(), u.em.sortOf(x.Type()), t)
		if u.pendLin != nil && nm != t {
			u.lin[nm] = *u.pendLin
		}
		u.pendLin = nil
		f.vals[x] = Val{T: nm, Ty: x.Type()}
	case *ssa.FieldAddr:
		p := u.value(f, st, x.X)
		stt := x.X.Type().Underlying().(*types.Pointer).Elem().Underlying().(*types.Struct)
		fld := stt.Field(x.Field)
		l := u.locOf(f, st, p, x.Pos(), u.exprText(x.Pos(), fld.Name()))
		nl := *l
		nl.Path = append(append([]Step{}, l.Path...), Step{Field: x.Field, Name: fld.Name(), Ty: fld.Type()})
		f.vals[x] = Val{Ty: x.Type(), Loc: &nl}
	case *ssa.Field:
		s := u.value(f, st, x.X)
		stt := x.X.Type().Underlying().(*types.Struct)
		fld := stt.Field(x.Field)
		sn := u.em.sortOf(x.X.Type())
		f.vals[x] = Val{T: u.em.sel(sn, fld.Name(), x.Field, s.T), Ty: x.Type()}
	case *ssa.IndexAddr:
		u.indexAddr(f, st, x)
	case *ssa.Index:
		a := u.value(f, st, x.X)
		i := u.value(f, st, x.Index)
		txt := u.exprText(x.Pos(), "index")
		if isString(x.X.Type()) {
			u.oblige(f, st, "index", txt, fmt.Sprintf("(and (<= 0 %s) (< %s (strlen %s)))", i.T, i.T, a.T), x.Pos())
			r := u.em.define(x.Name(), "Int", fmt.Sprintf("(strAt %s %s)", a.T, i.T))
			u.assume(st, fmt.Sprintf("(and (<= 0 %s) (< %s 256))", r, r))
			f.vals[x] = Val{T: r, Ty: x.Type()}
			return
		}
		if arr, ok := x.X.Type().Underlying().(*types.Array); ok {
			u.oblige(f, st, "index", txt, fmt.Sprintf("(and (<= 0 %s) (< %s %d))", i.T, i.T, arr.Len()), x.Pos())
			f.vals[x] = Val{T: fmt.Sprintf("(select %s %s)", a.T, i.T), Ty: x.Type()}
			return
		}
		u.errf("Index on %s", x.X.Type())
	case *ssa.Slice:
		u.sliceOp(f, st, x)
	case *ssa.SliceToArrayPointer:
		// supported when the pointer is only dereferenced for reading (array conversion):
		// a fresh array object holding a copy of the slice's first n elements
		for _, r := range *x.Referrers() {
			if l, ok := r.(*ssa.UnOp); !ok || l.Op != token.MUL {
				if _, dbg := r.(*ssa.DebugRef); !dbg {
					u.errf("slice-to-array-pointer conversion that is not immediately dereferenced")
				}
			}
		}
		sv := u.value(f, st, x.X)
		arr := x.Type().Underlying().(*types.Pointer).Elem().Underlying().(*types.Array)
		u.oblige(f, st, "slice", u.exprText(x.Pos(), "array conversion"), fmt.Sprintf("(>= (s_len %s) %d)", sv.T, arr.Len()), x.Pos())
		hn := u.em.elemHeapName(arr.Elem())
		h := u.heapGet(st, hn, arr.Elem())
		cp := u.em.fresh("arrcopy", fmt.Sprintf("(Array Int %s)", u.em.sortOf(arr.Elem())))
		u.em.assert(fmt.Sprintf("(forall ((x Int)) (! (=> (and (<= 0 x) (< x %d)) (= (select %s x) (select (select %s (s_base %s)) (+ (s_off %s) x)))) :pattern ((select %s x))))", arr.Len(), cp, h, sv.T, sv.T, cp))
		r := u.newRef(st)
		u.heapSet(st, hn, arr.Elem(), fmt.Sprintf("(store %s %s %s)", h, r, cp))
		f.vals[x] = Val{T: r, Ty: x.Type()}
	case *ssa.MakeSlice:
		ln := u.value(f, st, x.Len)
		cp := u.value(f, st, x.Cap)
		u.oblige(f, st, "makeslice", u.exprText(x.Pos(), "make"), fmt.Sprintf("(and (<= 0 %s) (<= %s %s))", ln.T, ln.T, cp.T), x.Pos())
		et := x.Type().Underlying().(*types.Slice).Elem()
		r := u.newRef(st)
		n := u.em.elemHeapName(et)
		h := u.heapGet(st, n, et)
		u.heapSet(st, n, et, fmt.Sprintf("(store %s %s %s)", h, r, u.em.constArray(u.em.sortOf(et), u.em.zeroOf(et))))
		f.vals[x] = Val{T: u.em.define(x.Name(), "Slice", fmt.Sprintf("(mkSlice %s 0 %s %s)", r, ln.T, cp.T)), Ty: x.Type()}
	case *ssa.MakeMap:
		mt := x.Type().Underlying().(*types.Map)
		r := u.newRef(st)
		u.mapInit(st, mt, r)
		f.vals[x] = Val{T: r, Ty: x.Type()}
	case *ssa.Lookup:
		u.lookup(f, st, x)
	case *ssa.MapUpdate:
		m := u.value(f, st, x.Map)
		k := u.value(f, st, x.Key)
		v := u.value(f, st, x.Value)
		mt := x.Map.Type().Underlying().(*types.Map)
		u.oblige(f, st, "nilmap", u.exprText(x.Pos(), "mapupdate"), fmt.Sprintf("(not (= %s 0))", m.T), x.Pos())
		u.mapStore(st, mt, m.T, k.T, v.T)
	case *ssa.MakeInterface:
		v := u.value(f, st, x.X)
		if v.T == "" {
			f.vals[x] = u.freshVal(x.Name(), x.Type(), st)
			return
		}
		box, unbox := u.em.boxFn(x.X.Type())
		r := u.em.define(x.Name(), "Int", fmt.Sprintf("(%s %s)", box, v.T))
		u.em.assert(fmt.Sprintf("(and (> %s 0) (= (itype %s) %d) (= (%s %s) %s))", r, r, u.em.typeTag(x.X.Type()), unbox, r, v.T))
		f.vals[x] = Val{T: r, Ty: x.Type()}
	case *ssa.TypeAssert:
		u.typeAssert(f, st, x)
	case *ssa.ChangeType:
		v := u.value(f, st, x.X)
		v.Ty = x.Type()
		f.vals[x] = v
	case *ssa.ChangeInterface:
		v := u.value(f, st, x.X)
		v.Ty = x.Type()
		f.vals[x] = v
	case *ssa.Convert:
		v := u.value(f, st, x.X)
		f.vals[x] = Val{T: u.em.define(x.Name(), u.em.sortOf(x.Type()), u.convert(st, v.T, x.X.Type(), x.Type())), Ty: x.Type()}
	case *ssa.Extract:
		t := u.value(f, st, x.Tuple)
		if x.Index < len(t.Tuple) {
			f.vals[x] = t.Tuple[x.Index]
		} else {
			u.errf("extract from non-tuple")
			f.vals[x] = u.freshVal(x.Name(), x.Type(), st)
		}
	case *ssa.Call:
		res := u.call(f, st, x.Common(), x, x.Pos())
		switch len(res) {
		case 0:
			f.vals[x] = Val{Ty: x.Type()}
		case 1:
			f.vals[x] = res[0]
		default:
			f.vals[x] = Val{Tuple: res, Ty: x.Type()}
		}
	case *ssa.Defer:
		f.defers = append(f.defers, x)
	case *ssa.RunDefers:
		for i := len(f.defers) - 1; i >= 0; i-- {
			d := f.defers[i]
			u.call(f, st, d.Common(), nil, d.Pos())
		}
	case *ssa.Phi:
		u.phi(f, st, x)
	case *ssa.MakeClosure:
		var binds []Val
		for _, b := range x.Bindings {
			binds = append(binds, u.value(f, st, b))
		}
		f.vals[x] = Val{Ty: x.Type(), Fn: x.Fn.(*ssa.Function), Binds: binds, T: ""}
	case *ssa.Range:
		f.vals[x] = Val{Ty: x.Type(), T: "0"}
		if mt, ok := x.X.Type().Underlying().(*types.Map); ok {
			u.rangeMapStart(f, st, x, mt)
			return
		}
		u.unsupported(f, st, ins)
	case *ssa.Next:
		if it, ok := f.rangeIt[x.Iter]; ok {
			u.rangeMapNext(f, st, x, it)
			return
		}
		u.unsupported(f, st, ins)
	case *ssa.Go:
		u.em.assumes = append(u.em.assumes, "goroutine body not followed: "+x.Common().String())
		// call-site obligations also apply to `go f(args)`
		if callee := x.Common().StaticCallee(); callee != nil {
			var args []Val
			for _, a := range x.Common().Args {
				args = append(args, u.value(f, st, a))
			}
			u.callSiteObligations(f, st, callee, u.ctx.fullKey(callee), args, x.Pos())
		}
	default:
		u.unsupported(f, st, ins)
	}
}

// rangeMapStart: `range m` over a map starts with an empty set of visited keys.
func (u *Unit) rangeMapStart(f *Frame, st *State, x *ssa.Range, mt *types.Map) {
	ks := u.em.sortOf(mt.Key())
	pred := "rangeVisited_" + sanitize(ks)
	u.em.pre(fmt.Sprintf("(declare-fun %s (Int %s) Bool)", pred, ks))
	c := u.newCell("rangevisited", types.Typ[types.Int])
	v0 := u.em.fresh("visited", "Int")
	u.em.assert(fmt.Sprintf("(forall ((k %s)) (! (not (%s %s k)) :pattern ((%s %s k))))", ks, pred, v0, pred, v0))
	st.cells[c] = v0
	if f.rangeIt == nil {
		f.rangeIt = map[ssa.Value]*mapRange{}
	}
	f.rangeIt[x] = &mapRange{m: u.value(f, st, x.X), mt: mt, cell: c, pred: pred}
	u.em.assumes = append(u.em.assumes, "range over a map visits every key present exactly once (the map is not modified by the loop: checked)")
}

// rangeMapNext: one step of a range-over-map loop.  Either some not yet visited key of the
// map is delivered (with its value) and joins the visited set, or all keys have been visited.
func (u *Unit) rangeMapNext(f *Frame, st *State, x *ssa.Next, it *mapRange) {
	ks := u.em.sortOf(it.mt.Key())
	d, vv := u.mapGet(st, it.mt)
	cur := st.cells[it.cell]
	m := it.m.T
	inDom := func(k string) string {
		return fmt.Sprintf("(and (not (= %s 0)) (select (select %s %s) %s))", m, d, m, k)
	}
	// the visited set only ever holds keys of the map (inductive by construction)
	u.assume(st, fmt.Sprintf("(forall ((k %s)) (! (=> (%s %s k) %s) :pattern ((%s %s k))))", ks, it.pred, cur, inDom("k"), it.pred, cur))
	ok := u.em.fresh("rangeok", "Bool")
	k := u.em.fresh("rangekey", ks)
	u.assume(st, u.valInv(k, it.mt.Key(), st))
	val := u.em.define("rangeval", u.em.sortOf(it.mt.Elem()), fmt.Sprintf("(select (select %s %s) %s)", vv, m, k))
	u.assume(st, fmt.Sprintf("(=> %s (and %s (not (%s %s %s))))", ok, inDom(k), it.pred, cur, k))
	u.assume(st, fmt.Sprintf("(=> (not %s) (forall ((k %s)) (! (=> %s (%s %s k)) :pattern ((%s %s k)) :pattern ((select (select %s %s) k)))))", ok, ks, inDom("k"), it.pred, cur, it.pred, cur, d, m))
	nv := u.em.fresh("visited", "Int")
	u.assume(st, fmt.Sprintf("(forall ((k %s)) (! (= (%s %s k) (or (%s %s k) (and %s (= k %s)))) :pattern ((%s %s k))))", ks, it.pred, nv, it.pred, cur, ok, k, it.pred, nv))
	st.cells[it.cell] = nv
	f.vals[x] = Val{Ty: x.Type(), Tuple: []Val{{T: ok, Ty: types.Typ[types.Bool]}, {T: k, Ty: it.mt.Key()}, {T: val, Ty: it.mt.Elem()}}}
}

func (u *Unit) unsupported(f *Frame, st *State, ins ssa.Instruction) {
	if v, ok := ins.(ssa.Value); ok {
		f.vals[v] = u.freshVal(v.Name(), v.Type(), st)
	}
	if u.abstract {
		u.em.assumes = append(u.em.assumes, fmt.Sprintf("abstracted instruction %T in %s", ins, u.ctx.funcKey(f.fn)))
		return
	}
	u.errf("%s: unsupported instruction %T: %s", u.ctx.funcKey(f.fn), ins, ins)
}

// cellStatic remembers a non-term value (interior pointer, closure) held by a cell.
func (u *Unit) cellStatic(f *Frame, c *cellKey, v Val) {
	if u.staticCells == nil {
		u.staticCells = map[*cellKey]Val{}
	}
	u.staticCells[c] = v
}

func (u *Unit) newRef(st *State) string {
	r := u.em.define("ref", "Int", fmt.Sprintf("(+ %s 1)", st.alloc))
	st.alloc = r
	return r
}

func (u *Unit) unop(f *Frame, st *State, x *ssa.UnOp) {
	switch x.Op {
	case token.MUL:
		p := u.value(f, st, x.X)
		if p.Loc != nil && p.Loc.Kind == LCell && len(p.Loc.Path) == 0 {
			if sv, ok := u.staticCells[p.Loc.Cell]; ok {
				f.vals[x] = sv
				return
			}
		}
		l := u.locOf(f, st, p, x.Pos(), u.exprText(x.Pos(), "deref"))
		u.checkGuard(f, st, l, false, x.Pos())
		t := u.loadLoc(st, l)
		ty := x.Type()
		if l.Kind != LCell {
			t = u.em.define(x.Name(), u.em.sortOf(ty), t)
			u.assume(st, u.valInv(t, ty, st))
		}
		f.vals[x] = Val{T: t, Ty: ty}
		if g, ok := x.X.(*ssa.Global); ok {
			if cs, ok := u.ctx.frozenGlobal(g); ok {
				// contents of a frozen global slice are its literal in every heap
				et := ty.Underlying().(*types.Slice).Elem()
				h := u.heapGet(st, u.em.elemHeapName(et), et)
				for i := range cs {
					u.assume(st, fmt.Sprintf("(= (select (select %s (s_base %s)) %d) (%s %d))", h, t, i, u.frozenFn(g), i))
				}
			}
		}
	case token.SUB:
		v := u.value(f, st, x.X)
		t := fmt.Sprintf("(- %s)", v.T)
		if isUnsigned(x.Type()) {
			t = fmt.Sprintf("(mod (- %s) %s)", v.T, pow2(intBits(x.Type())))
		}
		f.vals[x] = Val{T: t, Ty: x.Type()}
	case token.NOT:
		v := u.value(f, st, x.X)
		f.vals[x] = Val{T: not(v.T), Ty: x.Type()}
	case token.XOR:
		v := u.value(f, st, x.X)
		if isUnsigned(x.Type()) {
			f.vals[x] = Val{T: fmt.Sprintf("(- %s 1 %s)", pow2(intBits(x.Type())), v.T), Ty: x.Type()}
		} else {
			f.vals[x] = Val{T: fmt.Sprintf("(- (- %s) 1)", v.T), Ty: x.Type()}
		}
	default:
		u.unsupported(f, st, x)
	}
}

func (u *Unit) phi(f *Frame, st *State, x *ssa.Phi) {
	// naive form only produces phis for short-circuit boolean expressions
	n := u.em.fresh(x.Name(), u.em.sortOf(x.Type()))
	b := x.Block()
	for i, e := range x.Edges {
		p := b.Preds[i]
		g, ok := f.edgeGuard[[2]int{p.Index, b.Index}]
		if !ok {
			continue // unreachable or back edge
		}
		v, ok := f.vals[e]
		if !ok {
			if c, isC := e.(*ssa.Const); isC {
				v = u.constVal(c)
			} else {
				continue
			}
		}
		u.em.assert(implies(g, fmt.Sprintf("(= %s %s)", n, v.T)))
	}
	f.vals[x] = Val{T: n, Ty: x.Type()}
}

func (u *Unit) indexAddr(f *Frame, st *State, x *ssa.IndexAddr) {
	base := u.value(f, st, x.X)
	i := u.value(f, st, x.Index)
	txt := u.exprText(x.Pos(), "index")
	switch t := x.X.Type().Underlying().(type) {
	case *types.Slice:
		if ld, ok := x.X.(*ssa.UnOp); ok && ld.Op == token.MUL {
			if g, ok := ld.X.(*ssa.Global); ok {
				if cs, ok := u.ctx.frozenGlobal(g); ok {
					u.oblige(f, st, "index", txt, fmt.Sprintf("(and (<= 0 %s) (< %s %d))", i.T, i.T, len(cs)), x.Pos())
					f.vals[x] = Val{Ty: x.Type(), Loc: &Loc{Kind: LFrozen, Global: g, RootTy: t.Elem(), Idx: i.T}}
					return
				}
			}
		}
		u.oblige(f, st, "index", txt, fmt.Sprintf("(and (<= 0 %s) (< %s (s_len %s)))", i.T, i.T, base.T), x.Pos())
		idx := fmt.Sprintf("(+ (s_off %s) %s)", base.T, i.T)
		f.vals[x] = Val{Ty: x.Type(), Loc: &Loc{Kind: LElem, RootTy: t.Elem(), Ref: fmt.Sprintf("(s_base %s)", base.T), Idx: idx}}
	case *types.Pointer:
		arr := t.Elem().Underlying().(*types.Array)
		u.oblige(f, st, "index", txt, fmt.Sprintf("(and (<= 0 %s) (< %s %d))", i.T, i.T, arr.Len()), x.Pos())
		if base.Loc != nil {
			nl := *base.Loc
			nl.Path = append(append([]Step{}, base.Loc.Path...), Step{Field: -1, Idx: i.T, Ty: arr.Elem()})
			f.vals[x] = Val{Ty: x.Type(), Loc: &nl}
			return
		}
		u.oblige(f, st, "nil", txt, fmt.Sprintf("(not (= %s 0))", base.T), x.Pos())
		f.vals[x] = Val{Ty: x.Type(), Loc: &Loc{Kind: LElem, RootTy: arr.Elem(), Ref: base.T, Idx: i.T}}
	default:
		u.errf("IndexAddr on %s", x.X.Type())
	}
}

func (u *Unit) sliceOp(f *Frame, st *State, x *ssa.Slice) {
	base := u.value(f, st, x.X)
	txt := u.exprText(x.Pos(), "slice")
	get := func(v ssa.Value, def string) string {
		if v == nil {
			return def
		}
		return u.value(f, st, v).T
	}
	switch t := x.X.Type().Underlying().(type) {
	case *types.Slice:
		lo := get(x.Low, "0")
		hi := get(x.High, fmt.Sprintf("(s_len %s)", base.T))
		mx := get(x.Max, fmt.Sprintf("(s_cap %s)", base.T))
		u.oblige(f, st, "slice", txt, fmt.Sprintf("(and (<= 0 %s) (<= %s %s) (<= %s %s) (<= %s (s_cap %s)))", lo, lo, hi, hi, mx, mx, base.T), x.Pos())
		r := fmt.Sprintf("(mkSlice (s_base %s) (+ (s_off %s) %s) (- %s %s) (- %s %s))", base.T, base.T, lo, hi, lo, mx, lo)
		f.vals[x] = Val{T: u.em.define(x.Name(), "Slice", r), Ty: x.Type()}
	case *types.Basic: // string
		lo := get(x.Low, "0")
		hi := get(x.High, fmt.Sprintf("(strlen %s)", base.T))
		u.oblige(f, st, "slice", txt, fmt.Sprintf("(and (<= 0 %s) (<= %s %s) (<= %s (strlen %s)))", lo, lo, hi, hi, base.T), x.Pos())
		r := u.em.define(x.Name(), "Str", fmt.Sprintf("(strslice %s %s %s)", base.T, lo, hi))
		u.assume(st, fmt.Sprintf("(= (strlen %s) (- %s %s))", r, hi, lo))
		f.vals[x] = Val{T: r, Ty: x.Type()}
	case *types.Pointer: // pointer to array
		arr := t.Elem().Underlying().(*types.Array)
		n := fmt.Sprint(arr.Len())
		lo := get(x.Low, "0")
		hi := get(x.High, n)
		mx := get(x.Max, n)
		u.oblige(f, st, "slice", txt, fmt.Sprintf("(and (<= 0 %s) (<= %s %s) (<= %s %s) (<= %s %s))", lo, lo, hi, hi, mx, mx, n), x.Pos())
		if base.T == "" && base.Loc != nil {
			// array embedded in a struct (or cell): the slice is modelled as a read-only copy
			// in a fresh object; writes through it are rejected (setRoot / copy)
			cur := u.loadLoc(st, base.Loc)
			hn := u.em.elemHeapName(arr.Elem())
			h := u.heapGet(st, hn, arr.Elem())
			rf := u.newRef(st)
			u.heapSet(st, hn, arr.Elem(), fmt.Sprintf("(store %s %s %s)", h, rf, cur))
			if u.copyRefs == nil {
				u.copyRefs = map[string]string{}
			}
			u.copyRefs[rf] = st.pc
			u.extDefault("slice of an array embedded in a struct is modelled as a read-only copy")
			base = Val{T: rf, Ty: base.Ty}
		}
		if base.T == "" {
			u.errf("slice of local array not supported")
			f.vals[x] = u.freshVal(x.Name(), x.Type(), st)
			return
		}
		r := fmt.Sprintf("(mkSlice %s %s (- %s %s) (- %s %s))", base.T, lo, hi, lo, mx, lo)
		nm := u.em.define(x.Name(), "Slice", r)
		if isNumeral(lo) && isNumeral(hi) {
			var a, b int
			fmt.Sscan(lo, &a)
			fmt.Sscan(hi, &b)
			if u.litLen == nil {
				u.litLen = map[string]int{}
			}
			u.litLen[nm] = b - a
		}
		f.vals[x] = Val{T: nm, Ty: x.Type()}
	default:
		u.errf("Slice on %s", x.X.Type())
	}
}

// maps: M_<maptype> : Array Int (Array K Bool) for domain, MV_ for values.
func (u *Unit) mapHeaps(mt *types.Map) (dom, val string) {
	n := u.mapHeapName(mt)
	return n, "V" + n
}

func (u *Unit) mapSorts(mt *types.Map) (string, string) {
	k := u.em.sortOf(mt.Key())
	return fmt.Sprintf("(Array Int (Array %s Bool))", k), fmt.Sprintf("(Array Int (Array %s %s))", k, u.em.sortOf(mt.Elem()))
}

func (u *Unit) mapGet(st *State, mt *types.Map) (dom, val string) {
	dn, vn := u.mapHeaps(mt)
	ds, vs := u.mapSorts(mt)
	get := func(n, srt string) string {
		if v, ok := st.heaps[n]; ok {
			return v
		}
		u.heapTy[n] = mt
		u.em.pre(fmt.Sprintf("(declare-const %s_init %s)", n, srt))
		return n + "_init"
	}
	return get(dn, ds), get(vn, vs)
}

func (u *Unit) mapInit(st *State, mt *types.Map, r string) {
	dn, _ := u.mapHeaps(mt)
	ds, _ := u.mapSorts(mt)
	d, _ := u.mapGet(st, mt)
	u.heapTy[dn] = mt
	st.heaps[dn] = u.em.define(dn, ds, fmt.Sprintf("(store %s %s ((as const (Array %s Bool)) false))", d, r, u.em.sortOf(mt.Key())))
}

func (u *Unit) mapStore(st *State, mt *types.Map, m, k, v string) {
	dn, vn := u.mapHeaps(mt)
	ds, vs := u.mapSorts(mt)
	d, vv := u.mapGet(st, mt)
	u.heapTy[dn] = mt
	u.heapTy[vn] = mt
	st.heaps[dn] = u.em.define(dn, ds, fmt.Sprintf("(store %s %s (store (select %s %s) %s true))", d, m, d, m, k))
	st.heaps[vn] = u.em.define(vn, vs, fmt.Sprintf("(store %s %s (store (select %s %s) %s %s))", vv, m, vv, m, k, v))
}

func (u *Unit) lookup(f *Frame, st *State, x *ssa.Lookup) {
	m := u.value(f, st, x.X)
	k := u.value(f, st, x.Index)
	if isString(x.X.Type()) {
		u.oblige(f, st, "index", u.exprText(x.Pos(), "index"), fmt.Sprintf("(and (<= 0 %s) (< %s (strlen %s)))", k.T, k.T, m.T), x.Pos())
		r := u.em.define(x.Name(), "Int", fmt.Sprintf("(strAt %s %s)", m.T, k.T))
		u.assume(st, fmt.Sprintf("(and (<= 0 %s) (< %s 256))", r, r))
		f.vals[x] = Val{T: r, Ty: x.Type()}
		return
	}
	mt := x.X.Type().Underlying().(*types.Map)
	d, v := u.mapGet(st, mt)
	in := fmt.Sprintf("(and (not (= %s 0)) (select (select %s %s) %s))", m.T, d, m.T, k.T)
	inN := u.em.define("inmap", "Bool", in)
	val := u.em.define(x.Name(), u.em.sortOf(mt.Elem()), ite(inN, fmt.Sprintf("(select (select %s %s) %s)", v, m.T, k.T), u.em.zeroOf(mt.Elem())))
	u.assume(st, u.valInv(val, mt.Elem(), st))
	if x.CommaOk {
		f.vals[x] = Val{Ty: x.Type(), Tuple: []Val{{T: val, Ty: mt.Elem()}, {T: inN, Ty: types.Typ[types.Bool]}}}
	} else {
		f.vals[x] = Val{T: val, Ty: x.Type()}
	}
}

func (u *Unit) typeAssert(f *Frame, st *State, x *ssa.TypeAssert) {
	v := u.value(f, st, x.X)
	if _, isIface := x.AssertedType.Underlying().(*types.Interface); isIface {
		okv := u.em.fresh("taok", "Bool")
		u.assume(st, implies(okv, fmt.Sprintf("(not (= %s 0))", v.T)))
		if x.CommaOk {
			res := u.em.define(x.Name(), "Int", ite(okv, v.T, "0"))
			f.vals[x] = Val{Ty: x.Type(), Tuple: []Val{{T: res, Ty: x.AssertedType}, {T: okv, Ty: types.Typ[types.Bool]}}}
		} else {
			u.oblige(f, st, "typeassert", u.exprText(x.Pos(), "typeassert"), okv, x.Pos())
			f.vals[x] = Val{T: v.T, Ty: x.AssertedType}
		}
		return
	}
	_, unbox := u.em.boxFn(x.AssertedType)
	okT := fmt.Sprintf("(and (not (= %s 0)) (= (itype %s) %d))", v.T, v.T, u.em.typeTag(x.AssertedType))
	val := fmt.Sprintf("(%s %s)", unbox, v.T)
	if x.CommaOk {
		okN := u.em.define("taok", "Bool", okT)
		r := u.em.define(x.Name(), u.em.sortOf(x.AssertedType), ite(okN, val, u.em.zeroOf(x.AssertedType)))
		u.assume(st, u.valInv(r, x.AssertedType, st))
		f.vals[x] = Val{Ty: x.Type(), Tuple: []Val{{T: r, Ty: x.AssertedType}, {T: okN, Ty: types.Typ[types.Bool]}}}
		return
	}
	u.oblige(f, st, "typeassert", u.exprText(x.Pos(), "typeassert"), okT, x.Pos())
	r := u.em.define(x.Name(), u.em.sortOf(x.AssertedType), val)
	u.assume(st, u.valInv(r, x.AssertedType, st))
	f.vals[x] = Val{T: r, Ty: x.AssertedType}
}

// ---------------------------------------------------------------------------
// arithmetic

func intRange(t types.Type) (lo, hi string, ok bool) {
	if !isInteger(t) {
		return "", "", false
	}
	b := intBits(t)
	if isUnsigned(t) {
		return "0", pow2(b), true
	}
	h := halfPow(b)
	return "(- " + h + ")", h, true
}

func rangeSubset(from, to types.Type) bool {
	fb, tb := intBits(from), intBits(to)
	fu, tu := isUnsigned(from), isUnsigned(to)
	switch {
	case fu && tu:
		return fb <= tb
	case !fu && !tu:
		return fb <= tb
	case fu && !tu:
		return fb < tb
	}
	return false
}

func wrapInt(term string, to types.Type) string {
	b := intBits(to)
	if isUnsigned(to) {
		return fmt.Sprintf("(mod %s %s)", term, pow2(b))
	}
	h := halfPow(b)
	return fmt.Sprintf("(- (mod (+ %s %s) %s) %s)", term, h, pow2(b), h)
}

func (u *Unit) convert(st *State, term string, from, to types.Type) string {
	switch {
	case isInteger(from) && isInteger(to):
		if rangeSubset(from, to) {
			return term
		}
		if intBits(from) == intBits(to) && isUnsigned(from) != isUnsigned(to) {
			// reinterpretation between signed and unsigned of the same width
			w := pow2(intBits(to))
			if isUnsigned(to) {
				return fmt.Sprintf("(ite (>= %s 0) %s (+ %s %s))", term, term, term, w)
			}
			return fmt.Sprintf("(ite (< %s %s) %s (- %s %s))", term, halfPow(intBits(to)), term, term, w)
		}
		if u.nowrap && isUnsigned(to) && intBits(from) <= intBits(to) {
			// signed -> wider/equal unsigned in a nowrap unit: value must be non-negative (checked by caller obligations)
			return fmt.Sprintf("(ite (>= %s 0) %s (+ %s %s))", term, term, term, pow2(intBits(to)))
		}
		return wrapInt(term, to)
	case isInteger(from) && isFloat(to):
		return fmt.Sprintf("(to_real %s)", term)
	case isFloat(from) && isInteger(to):
		return fmt.Sprintf("(trunc %s)", term)
	case isFloat(from) && isFloat(to):
		return term
	case isString(to) || isString(from):
		fn := "conv_" + typeID(from) + "_to_" + typeID(to)
		u.em.pre(fmt.Sprintf("(declare-fun %s (%s) %s)", fn, u.em.sortOf(from), u.em.sortOf(to)))
		return fmt.Sprintf("(%s %s)", fn, term)
	}
	if types.Identical(from.Underlying(), to.Underlying()) {
		return term
	}
	if u.em.sortOf(from) == u.em.sortOf(to) {
		return term
	}
	u.errf("unsupported conversion %s -> %s", from, to)
	return term
}

func isNumeral(t string) bool {
	if t == "" {
		return false
	}
	for _, r := range t {
		if r < '0' || r > '9' {
			return false
		}
	}
	return true
}

func (u *Unit) divmod(f *Frame, st *State, a, b string, ty types.Type, wantMod bool, pos token.Pos) string {
	u.oblige(f, st, "divzero", u.exprText(pos, "div"), fmt.Sprintf("(not (= %s 0))", b), pos)
	if isNumeral(b) && b != "0" {
		if isUnsigned(ty) {
			if wantMod {
				return fmt.Sprintf("(mod %s %s)", a, b)
			}
			return fmt.Sprintf("(div %s %s)", a, b)
		}
		if wantMod {
			return fmt.Sprintf("(tmod %s %s)", a, b)
		}
		return fmt.Sprintf("(tdiv %s %s)", a, b)
	}
	u.em.pre("(declare-fun udiv (Int Int) Int)")
	u.em.pre("(declare-fun umod (Int Int) Int)")
	u.em.pre("(declare-fun sdiv (Int Int) Int)")
	u.em.pre("(declare-fun smod (Int Int) Int)")
	u.em.pre("(assert (forall ((a Int) (b Int)) (! (=> (and (>= a 0) (> b 0)) (and (= a (+ (* b (udiv a b)) (umod a b))) (<= 0 (umod a b)) (< (umod a b) b) (<= 0 (udiv a b)) (<= (udiv a b) a))) :pattern ((udiv a b)) :pattern ((umod a b)))))")
	u.em.pre("(assert (forall ((a Int) (b Int)) (! (=> (not (= b 0)) (and (= a (+ (* b (sdiv a b)) (smod a b))) (ite (>= a 0) (and (<= 0 (smod a b)) (< (smod a b) (ite (>= b 0) b (- b)))) (and (< (- (ite (>= b 0) b (- b))) (smod a b)) (<= (smod a b) 0))) (=> (and (>= a 0) (> b 0)) (and (>= (sdiv a b) 0) (<= (sdiv a b) a))))) :pattern ((sdiv a b)) :pattern ((smod a b)))))")
	// arithmetic lemmas (true of the integers) that the solvers do not find reliably by themselves
	u.em.pre("(assert (forall ((k Int) (b Int)) (! (=> (and (>= k 0) (> b 0)) (and (= (umod (* k b) b) 0) (= (udiv (* k b) b) k))) :pattern ((umod (* k b) b)) :pattern ((udiv (* k b) b)))))")
	u.em.pre("(assert (forall ((a Int) (b Int)) (! (=> (and (>= a 0) (> b 0)) (and (= (umod (+ a b) b) (umod a b)) (= (udiv (+ a b) b) (+ (udiv a b) 1)))) :pattern ((umod (+ a b) b)) :pattern ((udiv (+ a b) b)))))")
	u.em.pre("(assert (forall ((k Int) (b Int) (c Int)) (! (=> (and (>= k 0) (<= 0 c) (< c b)) (and (= (sdiv (+ (* k b) c) b) k) (= (smod (+ (* k b) c) b) c))) :pattern ((sdiv (+ (* k b) c) b)) :pattern ((smod (+ (* k b) c) b)))))")
	u.em.pre("(assert (forall ((k Int) (b Int) (c Int)) (! (=> (and (>= k 0) (<= 0 c) (< c b)) (and (= (udiv (+ (* k b) c) b) k) (= (umod (+ (* k b) c) b) c))) :pattern ((udiv (+ (* k b) c) b)) :pattern ((umod (+ (* k b) c) b)))))")
	u.em.pre("(assert (forall ((k Int) (b Int)) (! (=> (and (>= k 0) (> b 0)) (and (= (smod (* k b) b) 0) (= (sdiv (* k b) b) k))) :pattern ((smod (* k b) b)) :pattern ((sdiv (* k b) b)))))")
	u.em.pre("(assert (forall ((a Int) (b Int)) (! (=> (and (>= a 0) (> b 0)) (and (= (smod (+ a b) b) (smod a b)) (= (sdiv (+ a b) b) (+ (sdiv a b) 1)))) :pattern ((smod (+ a b) b)) :pattern ((sdiv (+ a b) b)))))")
	// unsigned and signed division agree on non-negative operands (both are floor division there)
	u.em.pre("(assert (forall ((a Int) (b Int)) (! (=> (and (>= a 0) (> b 0)) (and (= (udiv a b) (sdiv a b)) (= (umod a b) (smod a b)))) :pattern ((udiv a b)) :pattern ((umod a b)))))")
	var q, r string
	if isUnsigned(ty) {
		// operands of unsigned division are non-negative, where truncated and floor division agree:
		// the same function symbols as for signed division (congruence between code and int-valued specs)
		q, r = fmt.Sprintf("(sdiv %s %s)", a, b), fmt.Sprintf("(smod %s %s)", a, b)
	} else {
		q, r = fmt.Sprintf("(sdiv %s %s)", a, b), fmt.Sprintf("(smod %s %s)", a, b)
	}
	if !strings.Contains(a, "_q") && !strings.Contains(b, "_q") {
		key := q
		if u.divCache == nil {
			u.divCache = map[string][2]string{}
		}
		if c, ok := u.divCache[key]; ok {
			q, r = c[0], c[1]
		} else {
			q = u.em.define("q", "Int", q)
			r = u.em.define("r", "Int", r)
			u.divCache[key] = [2]string{q, r}
			// instance of the defining axiom (universally valid, hence not guarded by the path condition)
			if isUnsigned(ty) {
				u.em.assert(fmt.Sprintf("(=> (and (>= %s 0) (> %s 0)) (and (= %s (+ (* %s %s) %s)) (<= 0 %s) (< %s %s) (<= 0 %s)))", a, b, a, q, b, r, r, r, b, q))
			} else {
				absb := fmt.Sprintf("(ite (>= %s 0) %s (- %s))", b, b, b)
				u.em.assert(fmt.Sprintf("(=> (not (= %s 0)) (and (= %s (+ (* %s %s) %s)) (ite (>= %s 0) (and (<= 0 %s) (< %s %s)) (and (< (- %s) %s) (<= %s 0)))))", b, a, q, b, r, a, r, r, absb, absb, r, r))
				u.em.assert(fmt.Sprintf("(=> (and (>= %s 0) (> %s 0)) (and (>= %s 0) (<= %s %s)))", a, b, q, q, a))
			}
		}
	}
	if wantMod {
		return r
	}
	return q
}

func (u *Unit) binop(f *Frame, st *State, op token.Token, a, b Val, resTy types.Type, pos token.Pos) string {
	ty := a.Ty
	switch op {
	case token.EQL, token.NEQ:
		var t string
		if a.T == "" || b.T == "" {
			// comparing static pointers: only nil comparisons are meaningful
			if a.Loc != nil && b.T == "0" || b.Loc != nil && a.T == "0" {
				t = "false"
			} else {
				u.errf("comparison of non-term values")
				t = "false"
			}
		} else if _, isSl := a.Ty.Underlying().(*types.Slice); isSl && b.T == "(mkSlice 0 0 0 0)" {
			t = fmt.Sprintf("(= (s_base %s) 0)", a.T) // slice == nil
		} else if _, isSl := b.Ty.Underlying().(*types.Slice); isSl && a.T == "(mkSlice 0 0 0 0)" {
			t = fmt.Sprintf("(= (s_base %s) 0)", b.T)
		} else {
			t = fmt.Sprintf("(= %s %s)", a.T, b.T)
		}
		if op == token.NEQ {
			return not(t)
		}
		return t
	case token.LSS, token.LEQ, token.GTR, token.GEQ:
		if isString(ty) {
			lt := func(x, y string) string { return fmt.Sprintf("(strless %s %s)", x, y) }
			switch op {
			case token.LSS:
				return lt(a.T, b.T)
			case token.GTR:
				return lt(b.T, a.T)
			case token.LEQ:
				return not(lt(b.T, a.T))
			default:
				return not(lt(a.T, b.T))
			}
		}
		m := map[token.Token]string{token.LSS: "<", token.LEQ: "<=", token.GTR: ">", token.GEQ: ">="}
		return fmt.Sprintf("(%s %s %s)", m[op], a.T, b.T)
	case token.LAND:
		return and(a.T, b.T)
	case token.LOR:
		return or(a.T, b.T)
	}
	if isString(ty) && op == token.ADD {
		r := u.em.define("cat", "Str", fmt.Sprintf("(strcat %s %s)", a.T, b.T))
		u.assume(st, fmt.Sprintf("(= (strlen %s) (+ (strlen %s) (strlen %s)))", r, a.T, b.T))
		return r
	}
	if isFloat(ty) {
		switch op {
		case token.ADD:
			return fmt.Sprintf("(+ %s %s)", a.T, b.T)
		case token.SUB:
			return fmt.Sprintf("(- %s %s)", a.T, b.T)
		case token.MUL:
			return fmt.Sprintf("(* %s %s)", a.T, b.T)
		case token.QUO:
			if isRealConst(b.T) {
				return fmt.Sprintf("(/ %s %s)", a.T, b.T)
			}
			// division by a symbolic real: uninterpreted quotient with its defining property
			u.em.pre("(declare-fun rdiv (Real Real) Real)")
			if u.con != nil && u.con.RealDiv {
				u.em.pre("(assert (forall ((x Real) (y Real)) (! (=> (not (= y 0.0)) (= (* (rdiv x y) y) x)) :pattern ((rdiv x y)))))")
			}
			return fmt.Sprintf("(rdiv %s %s)", a.T, b.T)
		}
	}
	if !isInteger(ty) {
		u.errf("binop %s on %s", op, ty)
		return "0"
	}
	uns := isUnsigned(ty)
	w := pow2(intBits(ty))
	arith := func(t string) string {
		if uns && u.nowrap {
			// the unit claims that unsigned arithmetic never wraps: prove it, then use the plain value
			if u.con != nil && u.con.NoWrapAssumed {
				if !u.extUsed["nowrap-assumed"] {
					u.extUsed["nowrap-assumed"] = true
					u.em.assumes = append(u.em.assumes, "unsigned machine arithmetic treated as mathematical (no wrap-around) in "+u.unitName())
				}
				return t
			}
			if f != nil && !f.pure {
				n := u.em.define("uw", "Int", t)
				u.oblige(f, st, "wrap", u.exprText(pos, op.String()), fmt.Sprintf("(and (<= 0 %s) (< %s %s))", n, n, w), pos)
				return n
			}
			return t
		}
		if uns {
			return fmt.Sprintf("(mod %s %s)", t, w)
		}
		if u.arith && f != nil && !f.pure {
			lo, hi, _ := intRange(ty)
			n := u.em.define("ar", "Int", t)
			u.oblige(f, st, "arith", u.exprText(pos, op.String()), fmt.Sprintf("(and (<= %s %s) (< %s %s))", lo, n, n, hi), pos)
			return n
		}
		return t
	}
	switch op {
	case token.ADD:
		if t, ok := u.linFold(a.T, b.T, 1, uns); ok {
			return t
		}
		return arith(fmt.Sprintf("(+ %s %s)", a.T, b.T))
	case token.SUB:
		if t, ok := u.linFold(a.T, b.T, -1, uns); ok {
			return t
		}
		return arith(fmt.Sprintf("(- %s %s)", a.T, b.T))
	case token.MUL:
		return arith(fmt.Sprintf("(* %s %s)", a.T, b.T))
	case token.QUO:
		return u.divmod(f, st, a.T, b.T, ty, false, pos)
	case token.REM:
		return u.divmod(f, st, a.T, b.T, ty, true, pos)
	case token.SHL:
		if isNumeral(b.T) {
			return arith(fmt.Sprintf("(* %s %s)", a.T, shiftPow(b.T)))
		}
	case token.SHR:
		if isNumeral(b.T) {
			if uns {
				return fmt.Sprintf("(div %s %s)", a.T, shiftPow(b.T))
			}
			return fmt.Sprintf("(div %s %s)", a.T, shiftPow(b.T)) // arithmetic shift = floor division
		}
	case token.AND:
		if isNumeral(b.T) {
			if m, ok := maskBits(b.T); ok {
				return fmt.Sprintf("(mod %s %s)", a.T, m)
			}
		}
		if isNumeral(a.T) {
			if m, ok := maskBits(a.T); ok {
				return fmt.Sprintf("(mod %s %s)", b.T, m)
			}
		}
	}
	// uninterpreted bit operation
	fn := "bitop_" + sanitize(op.String()) + fmt.Sprintf("_%d", int(op))
	u.em.pre(fmt.Sprintf("(declare-fun %s (Int Int) Int)", fn))
	r := u.em.define("bits", "Int", fmt.Sprintf("(%s %s %s)", fn, a.T, b.T))
	u.assume(st, u.em.typeInv(r, resTy))
	return r
}

func shiftPow(n string) string {
	k := 0
	fmt.Sscan(n, &k)
	v := constant.Shift(constant.MakeInt64(1), token.SHL, uint(k))
	return v.ExactString()
}

func maskBits(n string) (string, bool) {
	v := constant.MakeFromLiteral(n, token.INT, 0)
	p := constant.BinaryOp(v, token.ADD, constant.MakeInt64(1))
	// p must be a power of two
	q := constant.BinaryOp(p, token.AND, v)
	if constant.Sign(q) == 0 && constant.Sign(p) > 0 {
		return p.ExactString(), true
	}
	return "", false
}

var _ = ast.NewIdent

// splitAnd flattens a top-level SMT conjunction into its conjuncts.
func splitAnd(t string) []string {
	if !strings.HasPrefix(t, "(and ") || !balancedTail(t) {
		return []string{t}
	}
	inner := t[5 : len(t)-1]
	var parts []string
	d := 0
	start := 0
	for i := 0; i < len(inner); i++ {
		switch inner[i] {
		case '(':
			d++
		case ')':
			d--
		case ' ':
			if d == 0 {
				if i > start {
					parts = append(parts, inner[start:i])
				}
				start = i + 1
			}
		}
	}
	if start < len(inner) {
		parts = append(parts, inner[start:])
	}
	var out []string
	for _, p := range parts {
		out = append(out, splitAnd(p)...)
	}
	return out
}

// loopOrdinals numbers the loops of fn in source order of their for/range statements
// (falls back to header block order when positions cannot be matched).
func (u *Unit) loopOrdinals(fn *ssa.Function, hdrs []int, isBack map[[2]int]bool) (map[int]int, map[int]ast.Node) {
	out := map[int]int{}
	for i, h := range hdrs {
		out[h] = i + 1
	}
	nodes := map[int]ast.Node{}
	syn := fn.Syntax()
	if syn == nil {
		return out, nodes
	}
	var loops []ast.Node
	ast.Inspect(syn, func(n ast.Node) bool {
		switch n.(type) {
		case *ast.ForStmt, *ast.RangeStmt:
			loops = append(loops, n)
		case *ast.FuncLit:
			if n != syn {
				return false
			}
		}
		return true
	})
	if len(loops) != len(hdrs) {
		return out, nodes
	}
	assigned := map[int]int{}
	used := map[int]bool{}
	for _, h := range hdrs {
		body := naturalLoop(fn, h, isBack)
		// collect positions of instructions in the loop
		best := -1
		bestSize := token.Pos(1 << 40)
		for li, l := range loops {
			// the loop statement must contain at least one instruction position of every
			// block kind; choose the smallest statement that contains ALL positioned instructions
			all := true
			any := false
			for bi := range body {
				for _, ins := range fn.Blocks[bi].Instrs {
					p := ins.Pos()
					if !p.IsValid() {
						continue
					}
					if _, isDbg := ins.(*ssa.DebugRef); isDbg {
						continue
					}
					any = true
					if p < l.Pos() || p > l.End() {
						all = false
					}
				}
			}
			if all && any {
				if sz := l.End() - l.Pos(); sz < bestSize {
					bestSize = sz
					best = li
				}
			}
		}
		if best < 0 || used[best] {
			return out, map[int]ast.Node{}
		}
		used[best] = true
		assigned[h] = best + 1
		nodes[h] = loops[best]
	}
	return assigned, nodes
}

// heapSortU: sort of any heap map (object heaps, backing arrays, Go maps).
func (u *Unit) heapSortU(name string, t types.Type) string {
	if mt, ok := t.(*types.Map); ok && (strings.HasPrefix(name, "M_") || strings.HasPrefix(name, "VM_")) {
		d, v := u.mapSorts(mt)
		if strings.HasPrefix(name, "VM_") {
			return v
		}
		return d
	}
	return u.em.heapSort(name, t)
}

func isRealConst(t string) bool {
	if t == "" {
		return false
	}
	for _, r := range t {
		if !(r >= '0' && r <= '9' || r == '.' || r == '(' || r == ')' || r == '/' || r == ' ' || r == '-') {
			return false
		}
	}
	return true
}

// linForm: an integer term known to be base + off (off a small literal).
type linForm struct {
	base string
	off  int64
}

// linFold folds x +/- literal chains: (x+1)-1 becomes x, so that terms built along
// different routes stay syntactically equal (helps congruence under uninterpreted functions).
// Only for signed (mathematical) integers; unsigned arithmetic wraps and is left alone
// unless the unit is in nowrap mode.
func (u *Unit) linFold(a, b string, sign int64, uns bool) (string, bool) {
	if uns && !u.nowrap {
		return "", false
	}
	if u.lin == nil {
		u.lin = map[string]linForm{}
	}
	var base string
	var off int64
	lit := func(s string) (int64, bool) {
		if isNumeral(s) && len(s) < 15 {
			var v int64
			fmt.Sscan(s, &v)
			return v, true
		}
		return 0, false
	}
	if c, ok := lit(b); ok {
		base, off = a, sign*c
	} else if c, ok := lit(a); ok && sign == 1 {
		base, off = b, c
	} else {
		return "", false
	}
	if lf, ok := u.lin[base]; ok {
		base, off = lf.base, lf.off+off
	}
	var t string
	switch {
	case off == 0:
		t = base
	case off > 0:
		t = fmt.Sprintf("(+ %s %d)", base, off)
	default:
		t = fmt.Sprintf("(- %s %d)", base, -off)
	}
	u.pendLin = &linForm{base: base, off: off}
	if uns {
		// nowrap mode without proof obligation here would be unsound: let the caller emit it
		return "", false
	}
	return t, true
}
