package main

// Indirect replay for obligations without a directly observable run-time effect
// (loop invariants, variants, frames, ...). A broken proof step of function F is
// only a real defect if some input makes F violate its contract or makes a lemma
// about F fail. We look for such an input:
//   - F itself is run on inputs taken from the model of the failed obligation (and
//     on inputs that merely satisfy the precondition) and its whole executable
//     contract is checked (no panic, every executable ensures clause);
//   - every lemma of the package that calls F is run on inputs that reach its ghost
//     asserts, one candidate per disjunct of the lemma's precondition (case coverage).
// All candidates are only candidates: the run of the real code decides.

import (
	"fmt"
	"go/ast"
	"go/token"
	"os"
	"path/filepath"
	"strings"
	"time"

	"golang.org/x/tools/go/ssa"
)

const (
	indirectMaxCands   = 12 // per target
	indirectMaxTargets = 4
)

type ranchor struct {
	label string
	at    int
	pc    string
	goal  string
	extra []string
}

// specToSMT translates a specification expression over the entry state of u. Lines
// the translation appends to the emitter are returned separately (and removed again)
// so that they can be placed into an obligation's Extra lines.
// replayIndirectBudget bounds the indirect witness search per function (set by the tier).
var replayIndirectBudget = 60 * time.Second

func specToSMT(u *Unit, x ast.Expr) (term string, defs []string, ok bool) {
	if u.con == nil {
		return "", nil, false
	}
	env := &SpecEnv{u: u, st: u.entry, old: u.entry, vars: u.topParams, oldVars: u.topParams, pkg: u.con.Pkg, fr: &Frame{u: u, fn: u.fn, pure: true}}
	n0, e0 := len(u.em.lines), len(u.errs)
	defer func() {
		if r := recover(); r != nil {
			u.em.lines = u.em.lines[:n0]
			term, defs, ok = "", nil, false
		}
	}()
	t := env.boolExpr(x)
	defs = append([]string{}, u.em.lines[n0:]...)
	u.em.lines = u.em.lines[:n0]
	if len(u.errs) > e0 {
		u.errs = u.errs[:e0]
		return "", nil, false
	}
	return t, defs, true
}

// disjuncts collects the alternatives of the disjunctions that occur (under
// conjunctions) in a precondition.
func disjuncts(x ast.Expr, out *[]ast.Expr) {
	switch n := x.(type) {
	case *ast.ParenExpr:
		disjuncts(n.X, out)
	case *ast.BinaryExpr:
		switch n.Op {
		case token.LAND:
			disjuncts(n.X, out)
			disjuncts(n.Y, out)
		case token.LOR:
			var leaves func(e ast.Expr)
			leaves = func(e ast.Expr) {
				switch m := e.(type) {
				case *ast.ParenExpr:
					leaves(m.X)
					return
				case *ast.BinaryExpr:
					if m.Op == token.LOR {
						leaves(m.X)
						leaves(m.Y)
						return
					}
				}
				*out = append(*out, e)
			}
			leaves(n)
		}
	}
}

type rcase struct {
	label string
	lines []string
}

func preconditionCases(u *Unit) []rcase {
	cases := []rcase{{label: "any input satisfying the precondition"}}
	if u.con == nil {
		return cases
	}
	for _, r := range u.con.Requires {
		var ds []ast.Expr
		disjuncts(r.Expr, &ds)
		for _, d := range ds {
			t, defs, ok := specToSMT(u, d)
			if !ok || t == "" || t == "true" {
				continue
			}
			cases = append(cases, rcase{label: "precondition case " + exprString(d), lines: append(defs, "(assert "+t+")")})
		}
	}
	return cases
}

func callsFunc(fn, callee *ssa.Function) bool {
	for _, b := range fn.Blocks {
		for _, ins := range b.Instrs {
			if ci, ok := ins.(ssa.CallInstruction); ok {
				if ci.Common().StaticCallee() == callee {
					return true
				}
			}
		}
	}
	return false
}

// indirectKind: proof-step obligations (loop invariants, variants, frames) for which a
// concrete contract violation is searched indirectly.
func indirectKind(kind string) bool {
	switch kind {
	case "inv-entry", "inv-preserved", "decreases", "frame", "loopframe", "loopframe-entry":
		return true
	}
	return false
}

type indirectOutcome struct {
	reproduced bool
	payload    map[string]any
	summary    string
}

// one search per function and process: several broken proof steps of one function
// share the concrete failure (or the lack of one)
var indirectCache = map[*ssa.Function]*indirectOutcome{}

func replayIndirect(ctx *Ctx, u *Unit, ob *Obligation, cfg *SolverCfg, workdir string, payload map[string]any, note func(string, ...any)) bool {
	payload["replay_indirect"] = true
	if prev := indirectCache[u.fn]; prev != nil {
		for k, v := range prev.payload {
			payload[k] = v
		}
		note("result of the search already done for another obligation of %s: %s", ctx.funcKey(u.fn), prev.summary)
		return prev.reproduced
	}
	out := &indirectOutcome{payload: map[string]any{}}
	indirectCache[u.fn] = out
	var own []string
	note2 := func(format string, a ...any) {
		own = append(own, fmt.Sprintf(format, a...))
		note(format, a...)
	}
	out.reproduced = replayIndirectSearch(ctx, u, ob, cfg, workdir, payload, note2)
	out.summary = strings.Join(own, "; ")
	for _, k := range []string{"inputs", "test_source", "test_pkgdir", "test_cmd", "test_output", "replay_target", "replay_detail", "model_rounds", "candidates_tried"} {
		if v, ok := payload[k]; ok {
			out.payload[k] = v
		}
	}
	// the per-candidate solver files are only of interest while debugging
	if os.Getenv("GOVC_KEEP_REPLAY") == "" {
		if ents, err := os.ReadDir(workdir); err == nil {
			for _, e := range ents {
				if e.IsDir() && strings.Contains(e.Name(), "_c") {
					os.RemoveAll(filepath.Join(workdir, e.Name()))
				}
			}
		}
	}
	return out.reproduced
}

func replayIndirectSearch(ctx *Ctx, u *Unit, ob *Obligation, cfg *SolverCfg, workdir string, payload map[string]any, note func(string, ...any)) bool {
	scfg := *cfg
	if scfg.TimeoutS > 10 {
		scfg.TimeoutS = 10
	}
	type job struct {
		t       *rtarget
		anchors []ranchor
		title   string
	}
	var jobs []job

	// the function itself against its whole executable contract
	if t, why := newTarget(ctx, u, "contract"); t != nil {
		if u.con != nil {
			for i := range u.con.Ensures {
				if e := t.addEnsures(&u.con.Ensures[i]); e != "" {
					t.note("postcondition %q is not executable (%s) and is not checked", compact(u.con.Ensures[i].Text), e)
				}
			}
		}
		as := []ranchor{{label: "model of the failed obligation", at: ob.At, pc: ob.PC, goal: ob.Goal, extra: ob.Extra}}
		for _, o := range u.em.obls {
			if o.Kind == "vacuity" && strings.HasSuffix(o.Name, "#vacuity#requires") {
				as = append(as, ranchor{label: "precondition only", at: o.At, pc: "true", goal: "false"})
			}
		}
		jobs = append(jobs, job{t, as, "indirect replay of " + ob.Name + ": contract of " + ctx.funcKey(u.fn)})
	} else {
		note("%s cannot be called from a test: %s", ctx.funcKey(u.fn), why)
	}

	// lemmas about the function
	if u.fn.Pkg != nil {
		pkgPath := u.fn.Pkg.Pkg.Path()
		for _, key := range sortedKeys(ctx.contracts[pkgPath]) {
			con := ctx.contracts[pkgPath][key]
			if !con.Lemma || len(jobs) >= indirectMaxTargets {
				continue
			}
			lf := ctx.funcsByKey[pkgPath+"::"+key]
			if lf == nil || lf == u.fn || !callsFunc(lf, u.fn) {
				continue
			}
			lu := ctx.buildVC(lf, con)
			t, why := newTarget(ctx, lu, "assert")
			if t == nil {
				note("lemma %s not usable: %s", key, why)
				continue
			}
			var as []ranchor
			seen := map[string]bool{}
			for _, o := range lu.em.obls {
				if o.Kind != "assert" || seen[o.PC] {
					continue
				}
				seen[o.PC] = true
				as = append(as, ranchor{label: "reaching " + o.Name, at: o.At, pc: o.PC, goal: "false", extra: o.Extra})
			}
			if len(as) == 0 {
				continue
			}
			jobs = append(jobs, job{t, as, "indirect replay of " + ob.Name + ": lemma " + ctx.funcKey(lf)})
		}
	}

	tried := []string{}
	prefTag := ""
	deadline := time.Now().Add(replayIndirectBudget)
	for ji, j := range jobs {
		if time.Now().After(deadline) {
			note("search stopped after 4 minutes")
			break
		}
		cases := preconditionCases(j.t.u)
		var cands []*rcand
		n := 0
		for _, a := range j.anchors {
			for _, cs := range cases {
				if len(cands) >= indirectMaxCands || time.Now().After(deadline) {
					break
				}
				if a.goal != "false" && len(cs.lines) > 0 {
					continue // the obligation's own model is taken as it is
				}
				n++
				wd := filepath.Join(workdir, fmt.Sprintf("t%d_c%02d", ji, n))
				os.MkdirAll(wd, 0o755)
				sob := &Obligation{Name: ob.Name + " [" + a.label + "; " + cs.label + "]", Kind: "replay", At: a.at, PC: a.pc, Goal: a.goal,
					Extra: append(append([]string{}, a.extra...), cs.lines...), Unit: j.t.u}
				m := newRModel(j.t.u, sob, &scfg, wd)
				m.prefTag = prefTag
				m.quick = true
				c, _ := j.t.candidate(m)
				if c == nil {
					continue
				}
				prefTag = m.variant
				c.label = a.label + "; " + cs.label
				cands = append(cands, c)
			}
		}
		name := ctx.funcKey(j.t.fn)
		if len(cands) == 0 {
			tried = append(tried, name+" (no candidate input)")
			continue
		}
		tried = append(tried, fmt.Sprintf("%s (%d candidate inputs)", name, len(cands)))
		sub := map[string]any{}
		var subNotes []string
		snote := func(format string, a ...any) { subNotes = append(subNotes, fmt.Sprintf(format, a...)) }
		for _, tn := range j.t.notes {
			snote("%s", tn)
		}
		twd := filepath.Join(workdir, fmt.Sprintf("t%d", ji))
		os.MkdirAll(twd, 0o755)
		rep := j.t.runCandidates(cands, j.title, twd, sub, snote)
		if rep || payload["test_source"] == nil {
			for k, v := range sub {
				payload[k] = v
			}
			payload["replay_target"] = name
		}
		if rep {
			note("searched for a concrete failure through: %s", strings.Join(tried, ", "))
			note("the run of %s fails", name)
			for _, s := range subNotes {
				note("%s", s)
			}
			return true
		}
	}
	if len(tried) == 0 {
		note("no function or lemma to run")
	} else {
		note("searched for a concrete failure through: %s; none of the candidate inputs fails on the real code", strings.Join(tried, ", "))
	}
	return false
}
