package main

// Translation of contract clauses (requires / ensures source text) into executable Go
// expressions for replay tests.

import (
	"bytes"
	"fmt"
	"go/ast"
	"go/parser"
	"go/printer"
	"go/token"
	"go/types"
	"strings"

	"golang.org/x/tools/go/ast/astutil"
	"golang.org/x/tools/go/packages"
)

type clauseTr struct {
	ctx     *Ctx
	pkg     *packages.Package
	params  map[string]bool
	oldUsed map[string]bool
	bound   map[string]int
	native  map[ast.Node]bool
	bad     string
}

func newClauseTr(ctx *Ctx, pkg *packages.Package, params []string) *clauseTr {
	t := &clauseTr{ctx: ctx, pkg: pkg, params: map[string]bool{}, oldUsed: map[string]bool{}, bound: map[string]int{}, native: map[ast.Node]bool{}}
	for _, p := range params {
		t.params[p] = true
	}
	return t
}

// specOnly: builtins of the specification language without an executable meaning.
var specOnly = map[string]string{
	"locked":     "locked(...) refers to the state at the linearisation point",
	"fresh":      "fresh(...) is an allocation predicate",
	"allocated":  "allocated(...) is an allocation predicate",
	"all":        "unbounded quantifier (all x T :: ...)",
	"some":       "unbounded quantifier (some x T :: ...)",
	"dyntype":    "dyntype(...) is a spec-only function",
	"isSentinel": "isSentinel(...) is a spec-only function",
}

// translate returns the Go expression for a clause text, or an error if the clause
// cannot be executed.
func (t *clauseTr) translate(text string) (string, error) {
	t.bad = ""
	src := desugar(text)
	fset := token.NewFileSet()
	x, err := parser.ParseExprFrom(fset, "", src, 0)
	if err != nil {
		return "", fmt.Errorf("cannot parse desugared clause %q: %v", src, err)
	}
	if stub := t.ctx.replayStub(t.pkg, x, map[types.Object]bool{}); stub != "" {
		return "", fmt.Errorf("uses %s, which is uninterpreted in proofs and only a stub in Go", stub)
	}
	x = t.rewrite(x, false)
	if t.bad != "" {
		return "", fmt.Errorf("%s", t.bad)
	}
	var buf bytes.Buffer
	if err := printer.Fprint(&buf, fset, x); err != nil {
		return "", err
	}
	return strings.Join(strings.Fields(buf.String()), " "), nil
}

func isLitExpr(x ast.Expr) bool {
	switch n := x.(type) {
	case *ast.BasicLit:
		return true
	case *ast.ParenExpr:
		return isLitExpr(n.X)
	case *ast.UnaryExpr:
		return (n.Op == token.SUB || n.Op == token.ADD) && isLitExpr(n.X)
	case *ast.Ident:
		return n.Name == "nil" || n.Name == "true" || n.Name == "false"
	}
	return false
}

func paren(x ast.Expr) ast.Expr { return &ast.ParenExpr{X: x} }

func (t *clauseTr) rewrite(x ast.Expr, inOld bool) ast.Expr {
	holder := &ast.ParenExpr{X: x}
	pre := func(c *astutil.Cursor) bool {
		switch n := c.Node().(type) {
		case *ast.FuncLit:
			for _, f := range n.Type.Params.List {
				for _, nm := range f.Names {
					t.bound[nm.Name]++
				}
			}
		case *ast.CallExpr:
			if id, ok := n.Fun.(*ast.Ident); ok && t.bound[id.Name] == 0 && !t.params[id.Name] {
				if why, bad := specOnly[id.Name]; bad {
					if t.bad == "" {
						t.bad = "clause is not executable: " + why
					}
					return false
				}
				if id.Name == "old" && len(n.Args) == 1 {
					c.Replace(paren(t.rewrite(n.Args[0], true)))
					return false
				}
			}
		case *ast.Ident:
			if !inOld || !t.params[n.Name] || t.bound[n.Name] > 0 {
				return true
			}
			switch p := c.Parent().(type) {
			case *ast.SelectorExpr:
				if c.Name() == "Sel" {
					return true
				}
			case *ast.KeyValueExpr:
				if c.Name() == "Key" {
					return true
				}
			case *ast.Field:
				_ = p
				return true
			}
			t.oldUsed[n.Name] = true
			c.Replace(ast.NewIdent("govcOld_" + n.Name))
		}
		return true
	}
	post := func(c *astutil.Cursor) bool {
		switch n := c.Node().(type) {
		case *ast.FuncLit:
			for _, f := range n.Type.Params.List {
				for _, nm := range f.Names {
					t.bound[nm.Name]--
				}
			}
		case *ast.CallExpr:
			id, ok := n.Fun.(*ast.Ident)
			if !ok || t.bound[id.Name] > 0 || t.params[id.Name] {
				return true
			}
			switch id.Name {
			case "implies":
				if len(n.Args) == 2 {
					c.Replace(paren(&ast.BinaryExpr{X: &ast.UnaryExpr{Op: token.NOT, X: paren(n.Args[0])}, Op: token.LOR, Y: paren(n.Args[1])}))
				}
			case "iff":
				if len(n.Args) == 2 {
					b := &ast.BinaryExpr{X: paren(n.Args[0]), Op: token.EQL, Y: paren(n.Args[1])}
					t.native[b] = true
					c.Replace(paren(b))
				}
			case "forall":
				n.Fun = ast.NewIdent("govcForall")
			case "exists":
				n.Fun = ast.NewIdent("govcExists")
			case "isnil":
				n.Fun = ast.NewIdent("govcIsNil")
			case "real":
				n.Fun = ast.NewIdent("float64")
			case "cond":
				n.Fun = ast.NewIdent("govcCond")
			case "mathdiv", "mathmod":
				if len(n.Args) == 2 {
					n.Fun = ast.NewIdent(map[string]string{"mathdiv": "govcMathDiv", "mathmod": "govcMathMod"}[id.Name])
					n.Args = []ast.Expr{&ast.CallExpr{Fun: ast.NewIdent("int"), Args: []ast.Expr{n.Args[0]}}, &ast.CallExpr{Fun: ast.NewIdent("int"), Args: []ast.Expr{n.Args[1]}}}
				}
			}
		case *ast.BinaryExpr:
			if (n.Op == token.EQL || n.Op == token.NEQ) && !t.native[n] && !isLitExpr(n.X) && !isLitExpr(n.Y) {
				var r ast.Expr = &ast.CallExpr{Fun: ast.NewIdent("govcEq"), Args: []ast.Expr{n.X, n.Y}}
				if n.Op == token.NEQ {
					r = &ast.UnaryExpr{Op: token.NOT, X: r}
				}
				c.Replace(r)
			}
		}
		return true
	}
	astutil.Apply(holder, pre, post)
	return holder.X
}

// replayStub reports the name of a function reachable from root (through ghost
// functions) that is declared uninterpreted and whose Go body ignores its parameters:
// executing it says nothing about the property.
func (c *Ctx) replayStub(pkg *packages.Package, root ast.Node, seen map[types.Object]bool) string {
	if pkg == nil || pkg.Types == nil || root == nil {
		return ""
	}
	found := ""
	ast.Inspect(root, func(n ast.Node) bool {
		if found != "" {
			return false
		}
		call, ok := n.(*ast.CallExpr)
		if !ok {
			return true
		}
		id, ok := call.Fun.(*ast.Ident)
		if !ok {
			return true
		}
		obj, ok := pkg.Types.Scope().Lookup(id.Name).(*types.Func)
		if !ok || seen[obj] {
			return true
		}
		seen[obj] = true
		decl, dp := c.funcDecl(obj)
		if decl == nil || decl.Body == nil {
			return true
		}
		if c.uninterp[pkg.PkgPath+"."+id.Name] && bodyIgnoresParams(decl) {
			found = id.Name
			return false
		}
		if c.ghostFiles[c.fset.Position(decl.Pos()).Filename] {
			if s := c.replayStub(dp, decl.Body, seen); s != "" {
				found = s
				return false
			}
		}
		return true
	})
	return found
}

func bodyIgnoresParams(decl *ast.FuncDecl) bool {
	names := map[string]bool{}
	for _, f := range decl.Type.Params.List {
		for _, n := range f.Names {
			if n.Name != "_" {
				names[n.Name] = true
			}
		}
	}
	if len(names) == 0 {
		return false
	}
	used := false
	ast.Inspect(decl.Body, func(n ast.Node) bool {
		if id, ok := n.(*ast.Ident); ok && names[id.Name] {
			used = true
		}
		return !used
	})
	return !used
}

// findEnsures locates the ensures clause an obligation name refers to:
// <unit>#ensures#<label or compact text>/return<k>[/<j>][@n]
func findEnsures(con *Contract, obName string) *Clause {
	if con == nil {
		return nil
	}
	i := strings.Index(obName, "#ensures#")
	if i < 0 {
		return nil
	}
	rest := obName[i+len("#ensures#"):]
	j := strings.LastIndex(rest, "/return")
	if j < 0 {
		return nil
	}
	label := rest[:j]
	for k := range con.Ensures {
		if con.Ensures[k].label() == label {
			return &con.Ensures[k]
		}
	}
	for k := range con.Ensures {
		if strings.HasSuffix(label, con.Ensures[k].label()) {
			return &con.Ensures[k]
		}
	}
	return nil
}
