package main

type replayResult struct {
	payload    map[string]any
	reproduced bool
}

// replayObligation turns a solver model into a Go test against the real code.
func replayObligation(ctx *Ctx, u *Unit, ob *Obligation, cfg *SolverCfg, dir string) replayResult {
	return replayResult{payload: map[string]any{"replay": "not attempted"}, reproduced: false}
}
