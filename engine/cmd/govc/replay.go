package main

// Counterexample replay: turn the solver model of a failed obligation into a Go
// test that calls the real function, and check that the failure shows up at run time.

import (
	"bytes"
	"context"
	"encoding/json"
	"flag"
	"fmt"
	"go/format"
	"go/types"
	"os"
	"os/exec"
	"path/filepath"
	"regexp"
	"sort"
	"strconv"
	"strings"
	"time"

	"golang.org/x/tools/go/packages"
	"golang.org/x/tools/go/ssa"
)

type replayResult struct {
	payload    map[string]any
	reproduced bool
}

const replayTestFile = "zz_govc_replay_test.go"

// replayKind maps an obligation kind to the way it is reproduced ("" = not attempted).
func replayKind(kind string) string {
	switch kind {
	case "index", "nil", "slice", "divzero", "panic", "makeslice", "typeassert", "nilmap":
		return "panic"
	case "assert":
		return "assert"
	case "pre":
		return "pre"
	case "ensures":
		return "ensures"
	}
	return ""
}

type rclause struct{ text, goExpr string }

// rtarget is a function that a replay test calls, with the executable parts of its contract.
type rtarget struct {
	ctx     *Ctx
	u       *Unit
	fn      *ssa.Function
	pkg     *packages.Package
	absRepo string
	pkgdir  string
	pnames  []string
	mode    string // panic | assert | pre | ensures | contract
	tr      *clauseTr
	reqs    []rclause
	ens     []rclause
	notes   []string
	imports map[string]string
	impUsed map[string]bool
}

func (t *rtarget) note(format string, a ...any) { t.notes = append(t.notes, fmt.Sprintf(format, a...)) }

// newTarget prepares a function for replay; reason != "" if it cannot be called from a test.
func newTarget(ctx *Ctx, u *Unit, mode string) (t *rtarget, reason string) {
	fn := u.fn
	pkg := ctx.pkgOf(fn)
	switch {
	case pkg == nil || pkg.Types == nil:
		return nil, "package of the function not found"
	case fn.Parent() != nil || fn.Synthetic != "":
		return nil, fn.Name() + " is not a source-level named function"
	case fn.TypeParams().Len() > 0 || len(fn.TypeArgs()) > 0:
		return nil, "generic function"
	}
	absRepo, err := filepath.Abs(ctx.repoDir)
	if err != nil {
		return nil, err.Error()
	}
	srcFile := ctx.fset.Position(fn.Pos()).Filename
	pkgdir, err := filepath.Rel(absRepo, filepath.Dir(srcFile))
	if err != nil || strings.HasPrefix(pkgdir, "..") {
		return nil, "source file " + srcFile + " is outside the repository"
	}
	t = &rtarget{ctx: ctx, u: u, fn: fn, pkg: pkg, absRepo: absRepo, pkgdir: filepath.ToSlash(pkgdir), mode: mode,
		imports: map[string]string{}, impUsed: map[string]bool{}}
	for i, p := range fn.Params {
		n := p.Name()
		if n == "" || n == "_" {
			n = fmt.Sprintf("govcBlank%d", i)
		}
		t.pnames = append(t.pnames, n)
	}
	for _, r := range append([]string{"fmt", "testing", "reflect", "unsafe", "strings", "errors"}, t.pnames...) {
		t.impUsed[r] = true
	}
	t.tr = newClauseTr(ctx, pkg, t.pnames)
	if len(u.errs) > 0 {
		t.note("the function left the verifiable subset; the model may be imprecise")
	}
	if mode == "assert" {
		if obj, ok := fn.Object().(*types.Func); ok {
			if decl, dp := ctx.funcDecl(obj); decl != nil && decl.Body != nil {
				if stub := ctx.replayStub(dp, decl.Body, map[types.Object]bool{}); stub != "" {
					return nil, "the lemma uses " + stub + ", which is uninterpreted in proofs and only a stub in Go"
				}
			}
		}
	}
	if u.con != nil {
		for _, r := range u.con.Requires {
			oldBefore := len(t.tr.oldUsed)
			g, err := t.tr.translate(r.Text)
			if err != nil || len(t.tr.oldUsed) != oldBefore {
				t.note("precondition %q is not executable and is not checked on the candidate input", compact(r.Text))
				continue
			}
			t.reqs = append(t.reqs, rclause{r.Text, g})
		}
	}
	return t, ""
}

// addEnsures makes a postcondition part of the test; returns an error text if it is not executable.
func (t *rtarget) addEnsures(cl *Clause) string {
	g, err := t.tr.translate(cl.Text)
	if err != nil {
		return err.Error()
	}
	t.ens = append(t.ens, rclause{cl.Text, g})
	return ""
}

// rcand is one concrete input of a target.
type rcand struct {
	stmts  []string
	pexprs []string
	inputs map[string]any
	notes  []string
	log    []string
	label  string
}

// candidate extracts one concrete input from the models of m's query.
func (t *rtarget) candidate(m *rmodel) (c *rcand, reason string) {
	fn, u := t.fn, t.u
	var strParams []string
	for _, p := range fn.Params {
		if pv, ok := u.topParams[p.Name()]; ok {
			m.addNice(pv.T, p.Type(), 0)
			if isString(p.Type()) {
				strParams = append(strParams, pv.T)
			}
		}
	}
	m.addStrDistinct(strParams)
	var gen *inputGen
	pexprs := make([]string, len(fn.Params))
	done := false
	for round := 0; round < 16; round++ {
		gen = newInputGen(m, u, t.pkg.Types, t.imports, t.impUsed)
		for i, p := range fn.Params {
			pv, ok := u.topParams[p.Name()]
			if !ok {
				gen.abort = "parameter " + p.Name() + " has no symbolic value"
				break
			}
			pexprs[i] = gen.expr(pv.T, p.Type(), 0)
		}
		if gen.abort != "" {
			break
		}
		if len(m.pending) == 0 {
			done = true
			break
		}
		if !m.flush() {
			break
		}
	}
	if !done {
		switch {
		case gen != nil && gen.abort != "":
			return nil, "not replayable: " + gen.abort
		case m.failed != "":
			return nil, "no concrete input: " + m.failed
		}
		return nil, "no concrete input: object graph not closed after 16 solver rounds"
	}
	c = &rcand{stmts: gen.statements(), pexprs: pexprs, inputs: map[string]any{}, log: m.log}
	if m.noquant {
		c.notes = append(c.notes, "values come from the model-finding variant of the query (universally quantified parts instantiated on small ranges or dropped): the input is only a candidate, validated by the run")
	}
	c.notes = append(c.notes, gen.noteList()...)
	for name := range m.declared {
		if strings.HasPrefix(name, "G_") {
			c.notes = append(c.notes, "package-level variables keep their initial values in the replay (model value of "+name+" ignored)")
			break
		}
	}
	for i := range fn.Params {
		c.inputs[t.pnames[i]] = trunc(pexprs[i], 3000)
	}
	gen.describe(c.inputs)
	return c, ""
}

// source generates the test file for the given candidate inputs.
func (t *rtarget) source(cands []*rcand, title string) (string, string) {
	fn := t.fn
	gen := newInputGen(nil, t.u, t.pkg.Types, t.imports, t.impUsed)
	var b strings.Builder
	w := func(format string, a ...any) { fmt.Fprintf(&b, format, a...) }
	sig := fn.Signature
	nres := sig.Results().Len()
	var ptypes, rtypes []string
	for _, p := range fn.Params {
		ptypes = append(ptypes, gen.typeStr(p.Type()))
	}
	for i := 0; i < nres; i++ {
		rtypes = append(rtypes, gen.typeStr(sig.Results().At(i).Type()))
	}
	w("var govcCandidates = []func() (bool, string){")
	for k := range cands {
		w("govcReplayInputs%d, ", k)
	}
	w("}\n\n")
	for k, c := range cands {
		if c.label != "" {
			w("// %s\n", strings.ReplaceAll(c.label, "\n", " "))
		}
		w("func govcReplayInputs%d() (reproduced bool, detail string) {\n", k)
		w("\tdefer func() {\n\t\tif r := recover(); r != nil {\n\t\t\treproduced, detail = false, fmt.Sprintf(\"building the inputs panicked: %%v\", r)\n\t\t}\n\t}()\n")
		for _, s := range c.stmts {
			w("\t%s\n", s)
		}
		var argNames []string
		for i := range fn.Params {
			w("\tgovcP%d := %s\n", i, c.pexprs[i])
			argNames = append(argNames, fmt.Sprintf("govcP%d", i))
		}
		w("\treturn govcReplayBody(%s)\n}\n\n", strings.Join(argNames, ", "))
	}
	var plist []string
	for i := range fn.Params {
		plist = append(plist, t.pnames[i]+" "+ptypes[i])
	}
	w("func govcReplayBody(%s) (reproduced bool, detail string) {\n", strings.Join(plist, ", "))
	for _, n := range t.pnames {
		w("\t_ = %s\n", n)
	}
	for _, r := range t.reqs {
		w("\tif govcOK, govcP := govcEval(func() bool { return %s }); govcP != nil {\n", r.goExpr)
		w("\t\treturn false, fmt.Sprintf(\"evaluating precondition %%s panicked: %%v\", %q, govcP)\n", compact(r.text))
		w("\t} else if !govcOK {\n\t\treturn false, \"candidate input violates precondition: \" + %q\n\t}\n", compact(r.text))
	}
	var olds []string
	for n := range t.tr.oldUsed {
		olds = append(olds, n)
	}
	sort.Strings(olds)
	for _, n := range olds {
		w("\tgovcOld_%s := govcClone(%s)\n\t_ = govcOld_%s\n", n, n, n)
	}
	var lhs []string
	for i := 0; i < nres; i++ {
		w("\tvar govcRet%d %s\n\t_ = govcRet%d\n", i, rtypes[i], i)
		lhs = append(lhs, fmt.Sprintf("govcRet%d", i))
	}
	args := append([]string{}, t.pnames...)
	callee := fn.Name()
	if sig.Recv() != nil {
		callee = t.pnames[0] + "." + fn.Name()
		args = args[1:]
	}
	if sig.Variadic() && len(args) > 0 {
		args[len(args)-1] += "..."
	}
	call := fmt.Sprintf("%s(%s)", callee, strings.Join(args, ", "))
	if nres > 0 {
		call = strings.Join(lhs, ", ") + " = " + call
	}
	w("\tgovcPanicked, govcPanic := false, any(nil)\n")
	w("\tfunc() {\n\t\tdefer func() {\n\t\t\tif r := recover(); r != nil {\n\t\t\t\tgovcPanicked, govcPanic = true, r\n\t\t\t}\n\t\t}()\n\t\t%s\n\t}()\n", call)
	switch t.mode {
	case "panic", "pre":
		w("\tif govcPanicked {\n\t\treturn true, fmt.Sprintf(\"call panicked: %%v\", govcPanic)\n\t}\n")
		if t.mode == "pre" {
			w("\treturn false, \"call returned normally (a violated callee precondition need not be observable)\"\n")
		} else {
			w("\treturn false, \"call returned normally\"\n")
		}
	case "assert":
		w("\tif govcPanicked {\n\t\tif strings.Contains(fmt.Sprint(govcPanic), \"ghost assert failed\") {\n\t\t\treturn true, fmt.Sprintf(\"call panicked: %%v\", govcPanic)\n\t\t}\n")
		w("\t\treturn false, fmt.Sprintf(\"call panicked with a different failure: %%v\", govcPanic)\n\t}\n")
		w("\treturn false, \"call returned normally\"\n")
	case "ensures", "contract":
		if t.mode == "contract" {
			w("\tif govcPanicked {\n\t\treturn true, fmt.Sprintf(\"call panicked: %%v\", govcPanic)\n\t}\n")
		} else {
			w("\tif govcPanicked {\n\t\treturn false, fmt.Sprintf(\"call panicked (a different failure than the postcondition): %%v\", govcPanic)\n\t}\n")
		}
		declared := map[string]bool{}
		for _, n := range t.pnames {
			declared[n] = true
		}
		bind := func(name string, i int) {
			if name == "" || name == "_" || declared[name] {
				return
			}
			declared[name] = true
			w("\t%s := govcRet%d\n\t_ = %s\n", name, i, name)
		}
		var rn []string
		if t.u.con != nil {
			rn = t.u.con.resultNames(fn)
		}
		for i := 0; i < nres; i++ {
			if i < len(rn) {
				bind(rn[i], i)
			}
			bind(fmt.Sprintf("ret%d", i), i)
		}
		if nres == 1 {
			bind("result", 0)
		}
		var resFmt, resArgs []string
		for i := 0; i < nres; i++ {
			resFmt = append(resFmt, "%v")
			resArgs = append(resArgs, fmt.Sprintf("govcShow(govcRet%d)", i))
		}
		resDesc := "\"\""
		if nres > 0 {
			resDesc = fmt.Sprintf("fmt.Sprintf(\" results: %s\", %s)", strings.Join(resFmt, ", "), strings.Join(resArgs, ", "))
		}
		for _, e := range t.ens {
			w("\tif govcHolds, govcEvalPanic := govcEval(func() bool { return %s }); govcEvalPanic != nil {\n", e.goExpr)
			w("\t\treturn false, fmt.Sprintf(\"evaluating the postcondition %%s panicked: %%v\", %q, govcEvalPanic)\n", compact(e.text))
			w("\t} else if !govcHolds {\n\t\treturn true, \"postcondition violated: \" + %q + %s\n\t}\n", compact(e.text), resDesc)
		}
		w("\treturn false, \"postcondition holds on this input\" + %s\n", resDesc)
	}
	w("}\n")
	body := b.String()

	var src strings.Builder
	fmt.Fprintf(&src, "//go:build verif\n\n// Code generated by govc (counterexample replay). DO NOT EDIT.\n// %s\n\npackage %s\n\nimport (\n", strings.ReplaceAll(title, "\n", " "), t.pkg.Types.Name())
	std := map[string]string{"fmt": "fmt", "reflect": "reflect", "strings": "strings", "testing": "testing", "unsafe": "unsafe"}
	for p, n := range t.imports {
		std[p] = n
	}
	var ipaths []string
	for p := range std {
		ipaths = append(ipaths, p)
	}
	sort.Strings(ipaths)
	for _, p := range ipaths {
		fmt.Fprintf(&src, "\t%s %q\n", std[p], p)
	}
	src.WriteString(")\n\n")
	src.WriteString(replayHelpers)
	src.WriteString("\n")
	src.WriteString(body)
	source := src.String()
	f, err := format.Source([]byte(source))
	if err != nil {
		return source, "generated test is not syntactically valid Go: " + err.Error()
	}
	return string(f), ""
}

// runCandidates generates, runs and evaluates the test; fills the payload.
func (t *rtarget) runCandidates(cands []*rcand, title, workdir string, payload map[string]any, note func(string, ...any)) bool {
	source, serr := t.source(cands, title)
	if serr != "" {
		note("%s", serr)
	}
	payload["test_source"] = source
	payload["test_pkgdir"] = t.pkgdir
	cmdline, out, runErr := runReplayTest(t.absRepo, t.pkgdir, source, workdir, "replay")
	payload["test_cmd"] = cmdline
	payload["test_output"] = truncTail(out, 4000)
	if runErr != "" {
		note("%s", runErr)
	}
	rep, idx, detail, found := parseReplayLine(out)
	if idx < 0 || idx >= len(cands) {
		idx = 0
	}
	c := cands[idx]
	payload["inputs"] = c.inputs
	payload["model_rounds"] = c.log
	for _, n := range c.notes {
		note("%s", n)
	}
	if len(cands) > 1 {
		payload["candidates_tried"] = len(cands)
		if c.label != "" {
			note("candidate %d of %d (%s)", idx+1, len(cands), c.label)
		}
	}
	switch {
	case found:
		payload["replay_detail"] = detail
		if rep {
			note("reproduced on the real code: %s", detail)
		} else {
			note("not reproduced: %s", detail)
		}
		return rep
	case strings.Contains(out, "[build failed]") || strings.Contains(out, "[setup failed]"):
		note("the generated test does not compile; see test_output")
	default:
		note("the test binary did not report a result (crash or timeout); see test_output")
	}
	return false
}

// replayObligation turns a solver model into a Go test against the real code.
func replayObligation(ctx *Ctx, u *Unit, ob *Obligation, cfg *SolverCfg, dir string) (res replayResult) {
	payload := map[string]any{"reproduced": false, "replay_note": ""}
	res.payload = payload
	var notes []string
	note := func(format string, a ...any) { notes = append(notes, fmt.Sprintf(format, a...)) }
	finish := func() replayResult {
		payload["replay_note"] = strings.Join(notes, "; ")
		payload["reproduced"] = res.reproduced
		return res
	}
	defer func() {
		if r := recover(); r != nil {
			res.reproduced = false
			notes = append(notes, fmt.Sprintf("replay aborted by internal error: %v", r))
			finish()
		}
	}()
	workdir := filepath.Join(dir, sanitize(ob.Name)+".replay")
	if err := os.MkdirAll(workdir, 0o755); err != nil {
		note("not attempted: %v", err)
		return finish()
	}
	mode := replayKind(ob.Kind)
	if mode == "" {
		note("obligations of kind %q have no directly observable run-time effect: no direct replay", ob.Kind)
		if indirectKind(ob.Kind) {
			res.reproduced = replayIndirect(ctx, u, ob, cfg, workdir, payload, note)
		}
		return finish()
	}
	t, why := newTarget(ctx, u, mode)
	if t == nil {
		note("not attempted: %s", why)
		return finish()
	}
	if mode == "ensures" {
		cl := findEnsures(u.con, ob.Name)
		if cl == nil {
			note("not replayable: ensures clause of %s not found in the contract", ob.Name)
			return finish()
		}
		if e := t.addEnsures(cl); e != "" {
			note("not replayable: postcondition %q: %s", compact(cl.Text), e)
			return finish()
		}
	}
	for _, n := range t.notes {
		note("%s", n)
	}
	exclude := map[string]bool{}
	for attempt := 0; attempt < 2; attempt++ {
		m := newRModel(u, ob, cfg, workdir)
		m.exclude = exclude
		c, why := t.candidate(m)
		payload["model_rounds"] = m.log
		if c == nil {
			note("%s", why)
			return finish()
		}
		n0 := len(notes)
		res.reproduced = t.runCandidates([]*rcand{c}, "obligation: "+ob.Name, workdir, payload, note)
		d, _ := payload["replay_detail"].(string)
		if res.reproduced || !m.noquant || !strings.HasPrefix(d, "candidate input violates precondition") || attempt > 0 {
			break
		}
		// the weakened query produced an input outside the precondition: use the full query
		notes = append(notes[:n0], "a first candidate from the model-finding variant violated the precondition; retried with the full query")
		exclude["nice_noquant"], exclude["noquant"] = true, true
	}
	return finish()
}

func truncTail(s string, n int) string {
	if len(s) <= n {
		return s
	}
	// keep the head (compile errors) and the tail (result line)
	return s[:n/2] + "\n...[truncated]...\n" + s[len(s)-n/2+20:]
}

var replayLineRe = regexp.MustCompile(`(?m)GOVC-REPLAY: reproduced=(true|false) detail=(.*)$`)
var replayCandRe = regexp.MustCompile(`^\[candidate (\d+)\] `)

func parseReplayLine(out string) (reproduced bool, cand int, detail string, found bool) {
	m := replayLineRe.FindStringSubmatch(out)
	if m == nil {
		return false, 0, "", false
	}
	detail = strings.TrimSpace(m[2])
	if cm := replayCandRe.FindStringSubmatch(detail); cm != nil {
		cand, _ = strconv.Atoi(cm[1])
		detail = detail[len(cm[0]):]
	}
	return m[1] == "true", cand, detail, true
}

// runReplayTest runs the generated test through a build overlay: nothing is written
// into the repository. Other _test.go files of the package are masked so that they
// can neither break the build nor run their TestMain.
func runReplayTest(absRepo, pkgdir, source, workdir, tag string) (cmdline, output, errNote string) {
	workdir, _ = filepath.Abs(workdir)
	testPath := filepath.Join(workdir, tag+"_test.go.txt")
	ovPath := filepath.Join(workdir, tag+"_overlay.json")
	if err := os.WriteFile(testPath, []byte(source), 0o644); err != nil {
		return "", "", "cannot write test file: " + err.Error()
	}
	repl := map[string]string{filepath.Join(absRepo, filepath.FromSlash(pkgdir), replayTestFile): testPath}
	if ents, err := os.ReadDir(filepath.Join(absRepo, filepath.FromSlash(pkgdir))); err == nil {
		for _, e := range ents {
			if !e.IsDir() && strings.HasSuffix(e.Name(), "_test.go") && e.Name() != replayTestFile {
				repl[filepath.Join(absRepo, filepath.FromSlash(pkgdir), e.Name())] = ""
			}
		}
	}
	ov, _ := json.MarshalIndent(map[string]any{"Replace": repl}, "", " ")
	if err := os.WriteFile(ovPath, ov, 0o644); err != nil {
		return "", "", "cannot write overlay: " + err.Error()
	}
	cmdline = fmt.Sprintf("ulimit -v 8000000; go test -tags verif -overlay %s -vet=off -count=1 -timeout 60s -v -run '^TestGovcReplay$' ./%s", shellQuote(ovPath), pkgdir)
	ctx, cancel := context.WithTimeout(context.Background(), 15*time.Minute)
	defer cancel()
	cmd := exec.CommandContext(ctx, "bash", "-c", cmdline)
	cmd.Dir = absRepo
	env := []string{}
	for _, e := range os.Environ() {
		k := strings.SplitN(e, "=", 2)[0]
		switch k {
		case "GOFLAGS", "GOPROXY", "GOSUMDB", "GOTOOLCHAIN", "PWD":
			continue
		}
		env = append(env, e)
	}
	cmd.Env = append(env, "GOFLAGS=-mod=mod", "GOPROXY=off", "GOSUMDB=off", "GOTOOLCHAIN=local", "PWD="+absRepo)
	var buf bytes.Buffer
	cmd.Stdout = &buf
	cmd.Stderr = &buf
	err := cmd.Run()
	output = buf.String()
	if ctx.Err() != nil {
		errNote = "go test did not finish within 15 minutes"
	} else if err != nil {
		if _, ok := err.(*exec.ExitError); !ok {
			errNote = "cannot run go test: " + err.Error()
		}
	}
	return cmdline, output, errNote
}

func shellQuote(s string) string {
	return "'" + strings.ReplaceAll(s, "'", `'\''`) + "'"
}

// cmdReplay: govc replay -file <replay.json> [-repo dir]; exit 1 if the failure is reproduced.
func cmdReplay(args []string) {
	fs := flag.NewFlagSet("replay", flag.ExitOnError)
	file := fs.String("file", "", "replay JSON file written by govc prop")
	repo := fs.String("repo", "/repo", "repository")
	fs.Parse(args)
	if *file == "" {
		fmt.Fprintln(os.Stderr, "usage: govc replay -file <replay.json> [-repo dir]")
		os.Exit(2)
	}
	data, err := os.ReadFile(*file)
	if err != nil {
		fmt.Fprintln(os.Stderr, err)
		os.Exit(2)
	}
	var rec map[string]any
	if err := json.Unmarshal(data, &rec); err != nil {
		fmt.Fprintln(os.Stderr, "replay json:", err)
		os.Exit(2)
	}
	source, _ := rec["test_source"].(string)
	pkgdir, _ := rec["test_pkgdir"].(string)
	if source == "" || pkgdir == "" {
		fmt.Fprintf(os.Stderr, "%s has no replay test (replay_note: %v)\n", *file, rec["replay_note"])
		os.Exit(2)
	}
	absRepo, err := filepath.Abs(*repo)
	if err != nil {
		fmt.Fprintln(os.Stderr, err)
		os.Exit(2)
	}
	workdir, err := os.MkdirTemp("", "govc-replay")
	if err != nil {
		fmt.Fprintln(os.Stderr, err)
		os.Exit(2)
	}
	fmt.Printf("obligation: %v\nproperty:   %v\n", rec["obligation"], rec["property"])
	if tg, ok := rec["replay_target"]; ok {
		fmt.Printf("target:     %v\n", tg)
	}
	if in, ok := rec["inputs"].(map[string]any); ok {
		for _, k := range sortedKeys(in) {
			fmt.Printf("input %s = %v\n", k, in[k])
		}
	}
	cmdline, out, errNote := runReplayTest(absRepo, pkgdir, source, workdir, "replay")
	os.RemoveAll(workdir)
	fmt.Println("$", cmdline)
	fmt.Print(out)
	if errNote != "" {
		fmt.Println(errNote)
	}
	rep, _, detail, found := parseReplayLine(out)
	if !found {
		fmt.Println("replay: no result (build failure, crash or timeout)")
		os.Exit(2)
	}
	fmt.Printf("replay: reproduced=%v (%s)\n", rep, detail)
	if rep {
		os.Exit(1)
	}
}
