package main

import (
	"bytes"
	"context"
	"fmt"
	"os"
	"os/exec"
	"path/filepath"
	"strings"
	"sync"
	"time"
)

type SolverCfg struct {
	TimeoutS int
	Seed     int
	Dir      string
	Solvers  []string // subset of z3new,z3,cvc5
	All      bool     // wait for all solvers (thorough): report disagreement
	Par      int
}

func (u *Unit) queryText(ob *Obligation, getValues []string) string {
	var b strings.Builder
	fmt.Fprintf(&b, "; %s\n", ob.Name)
	b.WriteString("(set-option :produce-models true)\n(set-logic ALL)\n")
	for _, l := range u.em.preamble {
		b.WriteString(l)
		b.WriteByte('\n')
	}
	for _, l := range u.em.strPreamble() {
		b.WriteString(l)
		b.WriteByte('\n')
	}
	for _, l := range u.em.lines[:ob.At] {
		b.WriteString(l)
		b.WriteByte('\n')
	}
	for _, l := range ob.Extra {
		b.WriteString(l)
		b.WriteByte('\n')
	}
	if ob.PC != "" && ob.PC != "true" {
		fmt.Fprintf(&b, "(assert %s)\n", ob.PC)
	}
	fmt.Fprintf(&b, "(assert (not %s))\n", ob.Goal)
	b.WriteString("(check-sat)\n")
	if len(getValues) > 0 {
		fmt.Fprintf(&b, "(get-value (%s))\n", strings.Join(getValues, " "))
	} else {
		b.WriteString("(get-model)\n")
	}
	return b.String()
}

type solveResult struct {
	res    string
	solver string
	ms     int64
	out    string
}

func runSolver(ctx context.Context, solver, file string, timeoutS, seed int) solveResult {
	var cmd *exec.Cmd
	switch solver {
	case "z3new":
		cmd = exec.CommandContext(ctx, "z3-new", "-smt2", fmt.Sprintf("-T:%d", timeoutS), fmt.Sprintf("smt.random_seed=%d", seed), file)
	case "z3":
		cmd = exec.CommandContext(ctx, "z3", "-smt2", fmt.Sprintf("-T:%d", timeoutS), fmt.Sprintf("smt.random_seed=%d", seed), file)
	case "cvc5":
		cmd = exec.CommandContext(ctx, "cvc5", fmt.Sprintf("--tlimit=%d", timeoutS*1000), fmt.Sprintf("--seed=%d", seed), "--produce-models", file)
	}
	var out bytes.Buffer
	cmd.Stdout = &out
	cmd.Stderr = &out
	t0 := time.Now()
	cmd.Run()
	ms := time.Since(t0).Milliseconds()
	s := out.String()
	first := ""
	for _, ln := range strings.Split(s, "\n") {
		ln = strings.TrimSpace(ln)
		if ln == "" || strings.HasPrefix(ln, "WARNING") {
			continue // z3 prints pattern warnings on stdout before the answer
		}
		first = ln
		break
	}
	res := "unknown"
	switch {
	case first == "unsat":
		res = "unsat"
	case first == "sat":
		res = "sat"
	case strings.Contains(first, "timeout") || ctx.Err() != nil:
		res = "timeout"
	case strings.HasPrefix(first, "(error"):
		res = "error"
	}
	return solveResult{res: res, solver: solver, ms: ms, out: s}
}

// solve races the solvers on one obligation.
func solveOne(u *Unit, ob *Obligation, cfg *SolverCfg, idx int) {
	if ob.Result != "" {
		return
	}
	file := filepath.Join(cfg.Dir, fmt.Sprintf("ob%04d.smt2", idx))
	os.WriteFile(file, []byte(u.queryText(ob, nil)), 0o644)
	ob.File = file
	tmo := cfg.TimeoutS
	if ob.Kind == "vacuity" && tmo > 3 {
		tmo = 3
	}
	if ob.KnownFail && tmo > 6 {
		tmo = 6
	}
	ctx, cancel := context.WithTimeout(context.Background(), time.Duration(tmo+2)*time.Second)
	defer cancel()
	ch := make(chan solveResult, len(cfg.Solvers))
	for _, s := range cfg.Solvers {
		go func(s string) { ch <- runSolver(ctx, s, file, tmo, cfg.Seed) }(s)
	}
	var results []solveResult
	final := solveResult{res: "timeout"}
	decided := false
	for range cfg.Solvers {
		r := <-ch
		results = append(results, r)
		if !decided && (r.res == "unsat" || r.res == "sat" || (ob.Kind == "vacuity" && r.res == "unknown")) {
			final = r
			decided = true
			if !cfg.All || ob.Kind == "vacuity" {
				cancel()
			}
		} else if !decided && r.res != "timeout" && final.res == "timeout" {
			final = r
		}
	}
	ob.Result = final.res
	ob.Solver = final.solver
	ob.Ms = final.ms
	if final.res == "sat" {
		ob.Model = final.out
	} else if final.res != "unsat" {
		var sb strings.Builder
		for _, r := range results {
			fmt.Fprintf(&sb, "[%s %s %dms] %s\n", r.solver, r.res, r.ms, strings.TrimSpace(trunc(r.out, 300)))
		}
		ob.Model = sb.String()
	}
	if cfg.All {
		var parts []string
		for _, r := range results {
			parts = append(parts, fmt.Sprintf("%s=%s/%dms", r.solver, r.res, r.ms))
			if decided && (r.res == "sat" || r.res == "unsat") && r.res != final.res {
				ob.Disagree = true
			}
		}
		ob.AllSolvers = strings.Join(parts, " ")
	}
}

func solveAll(units []*Unit, cfg *SolverCfg) {
	type job struct {
		u   *Unit
		ob  *Obligation
		idx int
	}
	var jobs []job
	n := 0
	for _, u := range units {
		for _, ob := range u.em.obls {
			jobs = append(jobs, job{u, ob, n})
			n++
		}
	}
	par := cfg.Par
	if par <= 0 {
		par = 6
	}
	sem := make(chan struct{}, par)
	var wg sync.WaitGroup
	for _, j := range jobs {
		wg.Add(1)
		sem <- struct{}{}
		go func(j job) {
			defer wg.Done()
			defer func() { <-sem }()
			solveOne(j.u, j.ob, cfg, j.idx)
		}(j)
	}
	wg.Wait()
}

// retryUndecided re-runs obligations that no solver decided with a portfolio of random
// seeds and a longer timeout (timing of SMT solvers varies with seed and machine load; a
// proof found under any seed is a proof).
func retryUndecided(units []*Unit, cfg *SolverCfg, timeoutS int) int {
	type job struct {
		u  *Unit
		ob *Obligation
	}
	var jobs []job
	for _, u := range units {
		for _, ob := range u.em.obls {
			if ob.Kind != "vacuity" && !ob.KnownFail && (ob.Result == "timeout" || ob.Result == "unknown") && ob.File != "" {
				jobs = append(jobs, job{u, ob})
			}
		}
	}
	if len(jobs) == 0 {
		return 0
	}
	sem := make(chan struct{}, 2)
	var wg sync.WaitGroup
	for _, j := range jobs {
		wg.Add(1)
		sem <- struct{}{}
		go func(j job) {
			defer wg.Done()
			defer func() { <-sem }()
			ctx, cancel := context.WithTimeout(context.Background(), time.Duration(timeoutS+2)*time.Second)
			defer cancel()
			type cand struct {
				solver string
				seed   int
			}
			var cands []cand
			for k := 1; k <= 3; k++ {
				cands = append(cands, cand{"z3new", cfg.Seed + 17*k}, cand{"z3", cfg.Seed + 17*k})
			}
			cands = append(cands, cand{"cvc5", cfg.Seed + 1})
			ch := make(chan solveResult, len(cands))
			for _, c := range cands {
				go func(c cand) { ch <- runSolver(ctx, c.solver, j.ob.File, timeoutS, c.seed) }(c)
			}
			for range cands {
				r := <-ch
				if r.res == "unsat" || r.res == "sat" {
					j.ob.Result = r.res
					j.ob.Solver = r.solver + "(retry)"
					j.ob.Ms = r.ms
					if r.res == "sat" {
						j.ob.Model = r.out
					}
					cancel()
					break
				}
			}
		}(j)
	}
	wg.Wait()
	return len(jobs)
}
