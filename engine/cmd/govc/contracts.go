package main

// Contract files: //@ comment blocks in zz_contracts_verif.go (build tag verif).

import (
	"fmt"
	"go/ast"
	"go/parser"
	"regexp"
	"strconv"
	"strings"

	"golang.org/x/tools/go/packages"
	"golang.org/x/tools/go/ssa"
)

type Clause struct {
	Label string
	Text  string
	Expr  ast.Expr
}

func (c Clause) label() string {
	if c.Label != "" {
		return c.Label
	}
	return compact(c.Text)
}

func compact(s string) string {
	s = strings.Join(strings.Fields(s), " ")
	if len(s) > 90 {
		s = s[:90] + "…"
	}
	return s
}

type LoopSpec struct {
	Invariants []Clause
	Decreases  ast.Expr
	Uses       []ast.Expr
	EntryUses  []ast.Expr
}

type Contract struct {
	Key           string
	Pkg           *packages.Package
	Requires      []Clause
	Ensures       []Clause
	Assigns       []ast.Expr
	AssignsAll    bool
	Allocates     bool
	AllocTypes    []ast.Expr // typed `allocates T, []U`: only objects of these types / backing arrays of these element types are allocated
	Loops         map[int]*LoopSpec
	Results       []string
	Params        []string // for externs
	Trusted       bool
	Inline        bool
	Arith         bool
	Abstract      bool
	Extern        bool
	Lemma         bool
	NoFrame       bool
	Keep          map[string]bool            // wiring units: safety obligation kinds that are nevertheless claimed
	KeepText      map[string]map[string]bool // ... or only the obligations of a kind with one of these texts
	Wiring        bool                       // abstract mode, no memory-safety obligations: only call-site/ensures/invariant obligations
	CallSites     []CallSiteSpec
	Exits         []ExitSpec
	StoreSites    []StoreSpec
	Defines       []Clause // result named by an uninterpreted function (assumed at call sites)
	NoWrap        bool
	NoWrapAssumed bool
	RealDiv       bool
	Uses          []ast.Expr
	Line          string
}

func (c *Contract) paramNames(fn *ssa.Function) []string {
	if fn == nil {
		return c.Params
	}
	var out []string
	for _, p := range fn.Params {
		out = append(out, p.Name())
	}
	if len(c.Params) > 0 {
		return c.Params
	}
	return out
}

func (c *Contract) resultNames(fn *ssa.Function) []string {
	if len(c.Results) > 0 {
		return c.Results
	}
	if fn == nil {
		return nil
	}
	var out []string
	res := fn.Signature.Results()
	for i := 0; i < res.Len(); i++ {
		out = append(out, res.At(i).Name())
	}
	return out
}

// CallSiteSpec: an obligation on the arguments of every call of Callee inside the function under
// contract (callee parameter names are bound to the arguments; caller variables by name).
// ExitSpec: an assertion at the Ord-th return statement (0 = every return).
type ExitSpec struct {
	Ord    int
	Clause Clause
}

// StoreSpec: an assertion right after the assignment whose text (lhs and operator) is Text.
type StoreSpec struct {
	Text   string
	Clause Clause
}

type CallSiteSpec struct {
	Callee string
	Clause Clause
}

type GuardDecl struct {
	Type   string // struct type name
	Mutex  string
	Fields map[string]bool
	Owners map[string]bool // functions running on the single goroutine that owns all writes: their reads need no lock
	Recv   string          // receiver name used in Inv
	Inv    *Clause         // lock invariant: holds whenever the lock is not held by us
	Pkg    *packages.Package
}

var labelRe = regexp.MustCompile(`^([A-Za-z_][A-Za-z0-9_]*):\s+(.*)$`)

// parseContracts reads all //@ blocks of a package's ghost files.
func (c *Ctx) parseContracts(p *packages.Package) error {
	for _, file := range p.Syntax {
		fname := c.fset.Position(file.Pos()).Filename
		if !strings.HasSuffix(fname, "_verif.go") {
			continue
		}
		c.ghostFiles[fname] = true
		var cur *Contract
		var lastClause *Clause
		var lastKind string
		flush := func() {}
		_ = flush
		for _, cg := range file.Comments {
			for _, cm := range cg.List {
				txt := cm.Text
				if strings.HasPrefix(txt, "// @") { // gofmt rewrites //@ in doc comments
					txt = "//@" + txt[4:]
				}
				if !strings.HasPrefix(txt, "//@") {
					continue
				}
				line := strings.TrimSpace(strings.TrimPrefix(txt, "//@"))
				if line == "" {
					continue
				}
				pos := c.fset.Position(cm.Pos())
				where := fmt.Sprintf("%s:%d", pos.Filename, pos.Line)
				fields := strings.Fields(line)
				kw := fields[0]
				rest := strings.TrimSpace(strings.TrimPrefix(line, kw))
				switch kw {
				case "func", "lemma":
					cur = &Contract{Key: rest, Pkg: p, Loops: map[int]*LoopSpec{}, Line: where, Lemma: kw == "lemma"}
					if c.contracts[p.PkgPath] == nil {
						c.contracts[p.PkgPath] = map[string]*Contract{}
					}
					if _, dup := c.contracts[p.PkgPath][rest]; dup {
						return fmt.Errorf("%s: duplicate contract for %s", where, rest)
					}
					c.contracts[p.PkgPath][rest] = cur
					lastClause = nil
				case "extern":
					// extern func <fullkey>(params) (results)
					sig := strings.TrimSpace(strings.TrimPrefix(rest, "func"))
					key := sig
					var params, results []string
					if i := strings.Index(sig, "("); i >= 0 && !strings.HasPrefix(sig, "(") {
						key = sig[:i]
						tail := sig[i:]
						j := strings.Index(tail, ")")
						params = splitNames(tail[1:j])
						tail = strings.TrimSpace(tail[j+1:])
						if strings.HasPrefix(tail, "(") {
							results = splitNames(strings.Trim(tail, "()"))
						}
					} else if strings.HasPrefix(sig, "(") {
						// method: (*T).M(params) (results) -> key up to the param list after the method name
						k := strings.Index(sig, ").")
						i := strings.Index(sig[k+2:], "(")
						if i >= 0 {
							key = sig[:k+2+i]
							tail := sig[k+2+i:]
							j := strings.Index(tail, ")")
							params = splitNames(tail[1:j])
							tail = strings.TrimSpace(tail[j+1:])
							if strings.HasPrefix(tail, "(") {
								results = splitNames(strings.Trim(tail, "()"))
							}
						}
					}
					cur = &Contract{Key: key, Pkg: p, Loops: map[int]*LoopSpec{}, Extern: true, Trusted: true, Params: params, Results: results, Line: where}
					c.externs[key] = cur
					lastClause = nil
				case "uninterpreted":
					if strings.Contains(rest, ".") {
						c.uninterp[rest] = true
					} else {
						c.uninterp[p.PkgPath+"."+rest] = true
					}
				case "recursive":
					c.recursive[p.PkgPath+"."+rest] = true
				case "guarded_by":
					// guarded_by Type.mutex: f1, f2
					parts := strings.SplitN(rest, ":", 2)
					if len(parts) != 2 {
						return fmt.Errorf("%s: bad guarded_by", where)
					}
					tm := strings.SplitN(strings.TrimSpace(parts[0]), ".", 2)
					g := &GuardDecl{Type: tm[0], Mutex: tm[1], Fields: map[string]bool{}, Owners: map[string]bool{}}
					flds := parts[1]
					if i := strings.Index(flds, "; owner:"); i >= 0 {
						for _, o := range strings.Split(flds[i+len("; owner:"):], ",") {
							g.Owners[strings.TrimSpace(o)] = true
						}
						flds = flds[:i]
					}
					for _, f := range strings.Split(flds, ",") {
						g.Fields[strings.TrimSpace(f)] = true
					}
					c.guards[p.PkgPath] = append(c.guards[p.PkgPath], g)
				case "shared_types", "startup_funcs", "shared_globals", "reviewed_globals", "mutable_types":
					sd := c.shared[p.PkgPath]
					if sd == nil {
						sd = &SharedDecl{Types: map[string]bool{}, Startup: map[string]bool{}}
						c.shared[p.PkgPath] = sd
					}
					for _, n := range strings.Split(rest, ",") {
						n = strings.TrimSpace(n)
						if n == "" {
							continue
						}
						switch kw {
						case "shared_types":
							sd.Types[n] = true
						case "startup_funcs":
							sd.Startup[n] = true
						case "mutable_types":
							// per-session state reachable from shared state, with its own discipline
							if sd.Mutable == nil {
								sd.Mutable = map[string]bool{}
							}
							sd.Mutable[n] = true
						case "reviewed_globals":
							// package-level variables whose address may be handed to calls while serving
							if sd.Reviewed == nil {
								sd.Reviewed = map[string]bool{}
							}
							sd.Reviewed[n] = true
						}
					}
					if kw == "shared_globals" {
						sd.Globals = true
					}
				case "lock_inv":
					// lock_inv Type.mutex(recv): expr
					parts := strings.SplitN(rest, ":", 2)
					if len(parts) != 2 {
						return fmt.Errorf("%s: bad lock_inv", where)
					}
					head := strings.TrimSpace(parts[0])
					i := strings.Index(head, "(")
					if i < 0 {
						return fmt.Errorf("%s: bad lock_inv head", where)
					}
					tm := strings.SplitN(head[:i], ".", 2)
					recv := strings.Trim(head[i:], "()")
					cl, err := parseClause(strings.TrimSpace(parts[1]))
					if err != nil {
						return fmt.Errorf("%s: %v", where, err)
					}
					found := false
					for _, g := range c.guards[p.PkgPath] {
						if g.Type == tm[0] && g.Mutex == tm[1] {
							g.Recv, g.Inv, g.Pkg = recv, &cl, p
							found = true
						}
					}
					if !found {
						return fmt.Errorf("%s: lock_inv before guarded_by", where)
					}
				case "ctor":
					c.ctors[p.PkgPath+"."+rest] = true
				default:
					if cur == nil {
						return fmt.Errorf("%s: clause outside of a func block: %s", where, line)
					}
					switch kw {
					case "returns":
						cur.Results = splitNames(strings.Trim(rest, "()"))
					case "requires", "ensures":
						cl, err := parseClause(rest)
						if err != nil {
							return fmt.Errorf("%s: %v", where, err)
						}
						if kw == "requires" {
							cur.Requires = append(cur.Requires, cl)
							lastClause = &cur.Requires[len(cur.Requires)-1]
						} else {
							cur.Ensures = append(cur.Ensures, cl)
							lastClause = &cur.Ensures[len(cur.Ensures)-1]
						}
						lastKind = kw
					case "assigns":
						switch rest {
						case "nothing":
						case "everything":
							cur.AssignsAll = true
						default:
							for _, part := range splitTop(rest, ',') {
								part = strings.ReplaceAll(part, "[*]", "[all]")
								x, err := parser.ParseExpr(part)
								if err != nil {
									return fmt.Errorf("%s: assigns %q: %v", where, part, err)
								}
								cur.Assigns = append(cur.Assigns, x)
							}
						}
						lastClause = nil
					case "allocates":
						cur.Allocates = true
						if strings.TrimSpace(rest) != "" {
							for _, part := range splitTop(rest, ',') {
								x, err := parser.ParseExpr(strings.TrimSpace(part))
								if err != nil {
									return fmt.Errorf("%s: allocates %q: %v", where, part, err)
								}
								cur.AllocTypes = append(cur.AllocTypes, x)
							}
						}
					case "loop":
						if len(fields) < 3 {
							return fmt.Errorf("%s: bad loop clause", where)
						}
						n, err := strconv.Atoi(strings.TrimSuffix(fields[1], ":"))
						if err != nil {
							return fmt.Errorf("%s: bad loop ordinal", where)
						}
						ls := cur.Loops[n]
						if ls == nil {
							ls = &LoopSpec{}
							cur.Loops[n] = ls
						}
						body := strings.TrimSpace(line[strings.Index(line, fields[2])+len(fields[2]):])
						switch fields[2] {
						case "invariant":
							cl, err := parseClause(body)
							if err != nil {
								return fmt.Errorf("%s: %v", where, err)
							}
							ls.Invariants = append(ls.Invariants, cl)
							lastClause = &ls.Invariants[len(ls.Invariants)-1]
							lastKind = "invariant"
						case "use", "use-entry":
							x, err := parser.ParseExpr(desugar(body))
							if err != nil {
								return fmt.Errorf("%s: loop use: %v", where, err)
							}
							if fields[2] == "use" {
								ls.Uses = append(ls.Uses, x)
							} else {
								ls.EntryUses = append(ls.EntryUses, x)
							}
							lastClause = nil
						case "decreases":
							x, err := parser.ParseExpr(desugar(body))
							if err != nil {
								return fmt.Errorf("%s: decreases: %v", where, err)
							}
							ls.Decreases = x
							lastClause = nil
						default:
							return fmt.Errorf("%s: bad loop clause kind %s", where, fields[2])
						}
					case "use":
						x, err := parser.ParseExpr(desugar(rest))
						if err != nil {
							return fmt.Errorf("%s: use: %v", where, err)
						}
						cur.Uses = append(cur.Uses, x)
						lastClause = nil
					case "callsite":
						// callsite <callee> requires [label:] expr
						if len(fields) < 4 || fields[2] != "requires" {
							return fmt.Errorf("%s: bad callsite clause", where)
						}
						body := strings.TrimSpace(rest[strings.Index(rest, "requires")+len("requires"):])
						cl, err := parseClause(body)
						if err != nil {
							return fmt.Errorf("%s: %v", where, err)
						}
						cur.CallSites = append(cur.CallSites, CallSiteSpec{Callee: fields[1], Clause: cl})
						lastClause = &cur.CallSites[len(cur.CallSites)-1].Clause
					case "exit":
						// exit <k> requires [label:] expr : holds at the k-th return statement (source
						// order), with the function's local variables in scope
						if len(fields) < 4 || fields[2] != "requires" {
							return fmt.Errorf("%s: bad exit clause", where)
						}
						k, err := strconv.Atoi(fields[1])
						if err != nil && fields[1] != "*" {
							return fmt.Errorf("%s: bad exit ordinal", where)
						}
						body := strings.TrimSpace(rest[strings.Index(rest, "requires")+len("requires"):])
						cl, err := parseClause(body)
						if err != nil {
							return fmt.Errorf("%s: %v", where, err)
						}
						cur.Exits = append(cur.Exits, ExitSpec{Ord: k, Clause: cl})
						lastClause = &cur.Exits[len(cur.Exits)-1].Clause
					case "defines":
						// defines <uninterpreted call> : result == that call, assumed at call sites only
						// (or a whole relation that mentions result, e.g. `defines payloadOf(result) == p`)
						txt := "result == " + strings.TrimSpace(rest)
						if regexp.MustCompile(`\bresult\b`).MatchString(rest) {
							txt = strings.TrimSpace(rest)
						}
						cl, err := parseClause(txt)
						if err != nil {
							return fmt.Errorf("%s: %v", where, err)
						}
						cur.Defines = append(cur.Defines, cl)
						lastClause = &cur.Defines[len(cur.Defines)-1]
					case "store":
						// store <assignment text> requires [label:] expr : holds right after that assignment
						k := strings.Index(rest, " requires ")
						if k < 0 {
							return fmt.Errorf("%s: bad store clause", where)
						}
						cl, err := parseClause(strings.TrimSpace(rest[k+len(" requires "):]))
						if err != nil {
							return fmt.Errorf("%s: %v", where, err)
						}
						cur.StoreSites = append(cur.StoreSites, StoreSpec{Text: compact(strings.TrimSpace(rest[:k])), Clause: cl})
						lastClause = &cur.StoreSites[len(cur.StoreSites)-1].Clause
					case "trusted":
						cur.Trusted = true
					case "inline":
						cur.Inline = true
					case "arith":
						cur.Arith = true
					case "abstract":
						cur.Abstract = true
					case "keep":
						if cur.Keep == nil {
							cur.Keep = map[string]bool{}
						}
						// `keep kind, kind` or `keep kind: text | text` (only obligations with that text)
						if i := strings.Index(rest, ":"); i > 0 {
							kind := strings.TrimSpace(rest[:i])
							if cur.KeepText == nil {
								cur.KeepText = map[string]map[string]bool{}
							}
							if cur.KeepText[kind] == nil {
								cur.KeepText[kind] = map[string]bool{}
							}
							for _, t := range strings.Split(rest[i+1:], ";") {
								cur.KeepText[kind][strings.TrimSpace(t)] = true
							}
							break
						}
						for _, k := range strings.Split(rest, ",") {
							cur.Keep[strings.TrimSpace(k)] = true
						}
					case "wiring":
						cur.Abstract = true
						cur.Wiring = true
						cur.NoFrame = true
					case "realdiv":
						cur.RealDiv = true
					case "nowrap":
						cur.NoWrap = true
						if rest == "assumed" {
							cur.NoWrapAssumed = true
						}
					case "noframe":
						cur.NoFrame = true
					case "|":
						// continuation of the previous clause
						if lastClause == nil {
							return fmt.Errorf("%s: continuation without clause", where)
						}
						text := lastClause.Text + " " + rest
						cl, err := parseClause(text)
						if err != nil {
							return fmt.Errorf("%s: %v", where, err)
						}
						cl.Label = lastClause.Label
						*lastClause = cl
						_ = lastKind
					default:
						return fmt.Errorf("%s: unknown clause %q", where, kw)
					}
				}
			}
		}
	}
	return nil
}

func splitNames(s string) []string {
	var out []string
	for _, p := range strings.Split(s, ",") {
		p = strings.TrimSpace(p)
		if p == "" {
			continue
		}
		out = append(out, strings.Fields(p)[0])
	}
	return out
}

func parseClause(text string) (Clause, error) {
	cl := Clause{}
	if m := labelRe.FindStringSubmatch(text); m != nil && !strings.HasPrefix(m[2], "=") {
		cl.Label = m[1]
		text = m[2]
	}
	cl.Text = text
	x, err := parser.ParseExpr(desugar(text))
	if err != nil {
		return cl, fmt.Errorf("clause %q: %v (desugared: %s)", text, err, desugar(text))
	}
	cl.Expr = x
	return cl, nil
}

// splitTop splits s at top-level occurrences of sep.
func splitTop(s string, sep byte) []string {
	var out []string
	d := 0
	last := 0
	for i := 0; i < len(s); i++ {
		switch s[i] {
		case '(', '[', '{':
			d++
		case ')', ']', '}':
			d--
		default:
			if s[i] == sep && d == 0 {
				out = append(out, strings.TrimSpace(s[last:i]))
				last = i + 1
			}
		}
	}
	out = append(out, strings.TrimSpace(s[last:]))
	return out
}

// findTop finds the first top-level occurrence of tok in s (-1 if none).
func findTop(s, tok string) int {
	d := 0
	for i := 0; i+len(tok) <= len(s); i++ {
		switch s[i] {
		case '(', '[', '{':
			d++
		case ')', ']', '}':
			d--
		}
		if d == 0 && strings.HasPrefix(s[i:], tok) {
			// do not confuse ==> with <==>
			if tok == "==>" && i > 0 && s[i-1] == '<' {
				continue
			}
			return i
		}
	}
	return -1
}

var quantAnyRe = regexp.MustCompile(`^(all|some)\s+([A-Za-z_][A-Za-z0-9_]*)\s+([A-Za-z_][A-Za-z0-9_.\[\]\*]*)\s*::`)

var quantRe = regexp.MustCompile(`^(forall|exists)\s+([A-Za-z_][A-Za-z0-9_]*)\s+in\s+\[`)

// desugar rewrites  a ==> b,  a <==> b,  forall i in [lo,hi) :: body  to Go syntax.
func desugar(s string) string {
	s = strings.TrimSpace(s)
	if s == "" {
		return s
	}
	// quantifier at the start
	if m := quantRe.FindStringSubmatch(s); m != nil {
		rest := s[len(m[0]):]
		// rest: lo, hi) :: body
		close := findClose(rest)
		if close < 0 {
			return s
		}
		rng := rest[:close]
		parts := splitTop(rng, ',')
		after := strings.TrimSpace(rest[close+1:])
		if len(parts) != 2 || !strings.HasPrefix(after, "::") {
			return s
		}
		body := desugar(strings.TrimSpace(after[2:]))
		return fmt.Sprintf("%s(%s, %s, func(%s int) bool { return %s })", m[1], desugar(parts[0]), desugar(parts[1]), m[2], body)
	}
	if m := quantAnyRe.FindStringSubmatch(s); m != nil {
		body := desugar(strings.TrimSpace(s[len(m[0]):]))
		return fmt.Sprintf("%s(func(%s %s) bool { return %s })", m[1], m[2], m[3], body)
	}
	if i := findTop(s, "<==>"); i >= 0 {
		return fmt.Sprintf("iff(%s, %s)", desugar(s[:i]), desugar(s[i+4:]))
	}
	if i := findTop(s, "==>"); i >= 0 {
		return fmt.Sprintf("implies(%s, %s)", desugar(s[:i]), desugar(s[i+3:]))
	}
	// quantifier in the middle at top level: a && forall ...
	for _, kw := range []string{"forall ", "exists ", "all ", "some "} {
		if i := findTopWord(s, kw); i > 0 {
			return desugarGroups(s[:i]) + desugar(s[i:])
		}
	}
	return desugarGroups(s)
}

func findTopWord(s, kw string) int {
	d := 0
	for i := 0; i+len(kw) <= len(s); i++ {
		switch s[i] {
		case '(', '[', '{':
			d++
		case ')', ']', '}':
			d--
		}
		if d == 0 && strings.HasPrefix(s[i:], kw) && (i == 0 || !isIdentChar(s[i-1])) {
			if quantRe.MatchString(s[i:]) || quantAnyRe.MatchString(s[i:]) {
				return i
			}
		}
	}
	return -1
}

func isIdentChar(b byte) bool {
	return b == '_' || b >= 'a' && b <= 'z' || b >= 'A' && b <= 'Z' || b >= '0' && b <= '9'
}

// findClose finds the ')' that closes a range "[lo, hi)" whose '[' was consumed.
func findClose(s string) int {
	d := 0
	for i := 0; i < len(s); i++ {
		switch s[i] {
		case '(', '[', '{':
			d++
		case ')':
			if d == 0 {
				return i
			}
			d--
		case ']', '}':
			d--
		}
	}
	return -1
}

// desugarGroups desugars inside parenthesised groups.
func desugarGroups(s string) string {
	if !strings.Contains(s, "==>") && !strings.Contains(s, "forall ") && !strings.Contains(s, "exists ") && !strings.Contains(s, "all ") && !strings.Contains(s, "some ") {
		return s
	}
	var b strings.Builder
	i := 0
	for i < len(s) {
		if s[i] == '(' {
			// find matching
			d := 0
			j := i
			for ; j < len(s); j++ {
				if s[j] == '(' || s[j] == '[' {
					d++
				} else if s[j] == ')' || s[j] == ']' {
					d--
					if d == 0 {
						break
					}
				}
			}
			if j >= len(s) {
				b.WriteString(s[i:])
				break
			}
			inner := s[i+1 : j]
			// argument lists: desugar each argument
			parts := splitTop(inner, ',')
			for k, p := range parts {
				parts[k] = desugar(p)
			}
			b.WriteString("(" + strings.Join(parts, ", ") + ")")
			i = j + 1
			continue
		}
		b.WriteByte(s[i])
		i++
	}
	return b.String()
}
