package main

// Property checks: run every unit of a property, handle known findings, write
// evidence and replay files, print VIOLATION / KNOWN-FINDING lines.

import (
	"encoding/json"
	"flag"
	"fmt"
	"go/types"
	"os"
	"path/filepath"
	"regexp"
	"sort"
	"strconv"
	"strings"
	"time"
)

type PropCfg struct {
	ID          string   `json:"id"`
	Packages    []string `json:"packages"`
	Functions   []string `json:"functions"`
	Level       string   `json:"level"`
	TrustedBase []string `json:"trusted_base"`
	Assumptions []string `json:"assumptions"`
	Explanation string   `json:"explanation"`
	Bounded     []string `json:"bounded"`
	Unclaimed   []string `json:"unclaimed"`
	Mutants     []string `json:"mutants"`
	SharedFlow  []string `json:"sharedflow"`
	LockFlow    []string `json:"lockflow"` // package path suffixes for the guarded-by dataflow analysis
	NoClosure   bool     `json:"no_closure"` // do not verify the contracts the listed functions rely on
}

type Finding struct {
	Property   string
	Obligation string
	Except     string
	Desc       string
	Fixed      bool
}

func readFindings(path string) []Finding {
	data, err := os.ReadFile(path)
	if err != nil {
		return nil
	}
	var out []Finding
	re := regexp.MustCompile(`^(finding|fixed):\s+property=(\S+)\s+(.*)$`)
	for _, l := range strings.Split(string(data), "\n") {
		l = strings.TrimSpace(l)
		m := re.FindStringSubmatch(l)
		if m == nil {
			continue
		}
		f := Finding{Property: m[2], Fixed: m[1] == "fixed"}
		rest := m[3]
		i := strings.Index(rest, " :: ")
		if strings.Contains(rest, " except=") {
			// the except expression may itself contain a quantifier (`exists i in [..) :: body`)
			i = strings.LastIndex(rest, " :: ")
		}
		if i >= 0 {
			f.Desc = strings.TrimSpace(rest[i+4:])
			rest = rest[:i]
		}
		if strings.HasPrefix(rest, "obligation=") {
			rest = strings.TrimPrefix(rest, "obligation=")
			if i := strings.Index(rest, " except="); i >= 0 {
				f.Except = strings.TrimSpace(rest[i+8:])
				rest = rest[:i]
			}
			f.Obligation = strings.TrimSpace(rest)
		}
		out = append(out, f)
	}
	return out
}

func cmdProp(args []string) {
	fs := flag.NewFlagSet("prop", flag.ExitOnError)
	repo := fs.String("repo", "/repo", "repository")
	verif := fs.String("verif", "/verif", "verif dir")
	id := fs.String("id", "", "property id")
	tier := fs.String("tier", "quick", "quick|thorough")
	update := fs.Bool("update", false, "rewrite expected obligation list")
	verbose := fs.Bool("v", false, "verbose")
	keep := fs.String("dump", "", "keep SMT files here")
	noEvidence := fs.Bool("no-evidence", false, "do not write evidence (used by selftest)")
	noReplay := fs.Bool("no-replay", false, "do not replay counterexamples on the real code")
	replaysOpt := fs.String("replays", "", "directory for replay files (default <verif>/replays)")
	fs.Parse(args)
	t0 := time.Now()
	seed := 0
	if s := os.Getenv("VERIF_SEED"); s != "" {
		seed, _ = strconv.Atoi(s)
	}
	if t := os.Getenv("VERIF_TIER"); t != "" && *tier == "" {
		*tier = t
	}
	var cfg PropCfg
	data, err := os.ReadFile(filepath.Join(*verif, "props", *id+".json"))
	if err != nil {
		fmt.Fprintln(os.Stderr, err)
		os.Exit(2)
	}
	if err := json.Unmarshal(data, &cfg); err != nil {
		fmt.Fprintln(os.Stderr, "props json:", err)
		os.Exit(2)
	}
	findings := readFindings(filepath.Join(*verif, "KNOWN_FINDINGS.txt"))
	replayDir := filepath.Join(*verif, "replays", cfg.ID)
	if *replaysOpt != "" {
		replayDir = filepath.Join(*replaysOpt, cfg.ID)
	}
	os.RemoveAll(replayDir)
	os.MkdirAll(replayDir, 0o755)

	violations := 0
	var vioLines []string
	fail := func(ob string, payload map[string]any, noInput bool) {
		violations++
		path := filepath.Join(replayDir, sanitize(ob)+".json")
		payload["property"] = cfg.ID
		payload["obligation"] = ob
		b, _ := json.MarshalIndent(payload, "", " ")
		os.WriteFile(path, b, 0o644)
		line := fmt.Sprintf("VIOLATION property=%s replay=%s", cfg.ID, path)
		if noInput {
			line += " no-failing-input-found"
		}
		vioLines = append(vioLines, line)
		fmt.Println(line)
	}

	vacuityCalls = *tier == "thorough"
	ctx, err := loadCtx(*repo, cfg.Packages)
	if err != nil {
		// the tree does not load/type-check with the contracts: nothing can be proved
		fail("load", map[string]any{"error": err.Error()}, true)
		writeEvidence(*verif, &cfg, *tier, seed, nil, nil, time.Since(t0).Seconds(), violations, nil, *noEvidence)
		os.Exit(1)
	}
	dir := *keep
	if dir == "" {
		dir, _ = os.MkdirTemp("", "govc")
		defer os.RemoveAll(dir)
	} else {
		os.MkdirAll(dir, 0o755)
	}
	var units []*Unit
	for _, key := range cfg.Functions {
		f := ctx.findFunc(key)
		if f == nil {
			fail(key+"#missing", map[string]any{"error": "function under contract no longer exists: " + key}, true)
			continue
		}
		con := ctx.contractFor(f)
		if con == nil {
			fail(key+"#nocontract", map[string]any{"error": "no contract found for " + key}, true)
			continue
		}
		if con.Trusted {
			continue
		}
		u := ctx.buildVC(f, con)
		units = append(units, u)
		for i, e := range u.errs {
			fmt.Fprintf(os.Stderr, "SUBSET %s: %s\n", key, e)
			fail(fmt.Sprintf("%s#subset%d", key, i+1), map[string]any{"error": "function left the verifiable subset: " + e}, true)
		}
	}
	// Closure over the contracts that the listed functions rely on: a callee or lemma whose
	// contract was assumed at a call site is verified in the same check (unless trusted /
	// extern), so that a callee that stops meeting its contract is noticed by every property
	// that depends on it, not only by the one that lists it.
	if !cfg.NoClosure {
		have := map[string]bool{}
		for _, u := range units {
			have[u.unitName()] = true
		}
		for round := 0; round < 6; round++ {
			var add []string
			for _, u := range units {
				for k := range u.em.usedSpecs {
					if !have[k] {
						have[k] = true
						add = append(add, k)
					}
				}
			}
			if len(add) == 0 {
				break
			}
			sort.Strings(add)
			for _, key := range add {
				f := ctx.findFunc(key)
				if f == nil || f.Blocks == nil {
					continue
				}
				con := ctx.contractFor(f)
				if con == nil || con.Trusted || con.Inline {
					continue
				}
				u := ctx.buildVC(f, con)
				units = append(units, u)
				for i, e := range u.errs {
					fmt.Fprintf(os.Stderr, "SUBSET %s: %s\n", key, e)
					fail(fmt.Sprintf("%s#subset%d", key, i+1), map[string]any{"error": "function left the verifiable subset: " + e}, true)
				}
			}
		}
	}
	if len(cfg.LockFlow) > 0 {
		paths := map[string]bool{}
		for pp := range ctx.pkgs {
			for _, suf := range cfg.LockFlow {
				if strings.HasSuffix(pp, suf) {
					paths[pp] = true
				}
			}
		}
		lu := &Unit{ctx: ctx, em: newEmitter(), heapTy: map[string]types.Type{}, obSeen: map[string]int{}, extUsed: map[string]bool{}}
		lu.em.obls = ctx.lockFlowAll(paths)
		for _, ob := range lu.em.obls {
			ob.Unit = lu
		}
		units = append(units, lu)
	}
	if len(cfg.SharedFlow) > 0 {
		paths := map[string]bool{}
		for pp := range ctx.pkgs {
			for _, suf := range cfg.SharedFlow {
				if strings.HasSuffix(pp, suf) {
					paths[pp] = true
				}
			}
		}
		su := &Unit{ctx: ctx, em: newEmitter(), heapTy: map[string]types.Type{}, obSeen: map[string]int{}, extUsed: map[string]bool{}}
		su.em.obls = ctx.sharedFlowAll(paths)
		for _, ob := range su.em.obls {
			ob.Unit = su
		}
		units = append(units, su)
	}
	scfg := &SolverCfg{TimeoutS: 20, Seed: seed, Dir: dir, Solvers: []string{"z3new", "z3", "cvc5"}, Par: 5}
	if *tier == "thorough" {
		scfg.TimeoutS = 60
		scfg.All = true
		scfg.Par = 4
	}
	for _, u := range units {
		for _, ob := range u.em.obls {
			if ob.Kind != "vacuity" && matchFinding(findings, cfg.ID, ob.Name) != nil {
				ob.KnownFail = true
			}
		}
	}
	solveAll(units, scfg)
	retryT := 45
	if *tier == "thorough" {
		retryT = 120
	}
	if n := retryUndecided(units, scfg, retryT); n > 0 {
		fmt.Fprintf(os.Stderr, "retried %d undecided obligation(s) with a seed portfolio\n", n)
	}

	// expected obligation names (vacuity guard: nothing may silently disappear)
	expPath := filepath.Join(*verif, "props", cfg.ID+".expected")
	seen := map[string]bool{}
	seenN := map[string]int{}
	var names []string
	for _, u := range units {
		for _, ob := range u.em.obls {
			seen[stableName(ob.Name)] = true
			seenN[stableName(ob.Name)]++
			names = append(names, ob.Name)
		}
	}
	if *update {
		sort.Strings(names)
		os.WriteFile(expPath, []byte(strings.Join(names, "\n")+"\n"), 0o644)
	} else if data, err := os.ReadFile(expPath); err == nil {
		expN := map[string]int{}
		for _, n := range strings.Split(strings.TrimSpace(string(data)), "\n") {
			if n != "" && !seen[stableName(n)] {
				fail(n+"#vanished", map[string]any{"error": "obligation generated on the reference tree is no longer generated: " + n}, true)
			}
			if n != "" {
				expN[stableName(n)]++
			}
		}
		// statement-level pins (call-site / store-site obligations) exist once per site: when one
		// of several sites with the same clause disappears, the instance count drops
		for _, sn := range sortedKeys(expN) {
			parts := strings.SplitN(sn, "#", 3)
			if len(parts) == 3 && (parts[1] == "callsite" || parts[1] == "store") && seen[sn] && seenN[sn] < expN[sn] {
				fail(sn+"#vanished-instance", map[string]any{"error": fmt.Sprintf("%d of %d sites of this statement-level obligation are no longer generated: %s", expN[sn]-seenN[sn], expN[sn], sn)}, true)
			}
		}
	}

	total, discharged := 0, 0
	replaysDone, maxReplays := 0, 4
	if *tier == "thorough" {
		maxReplays = 12
		replayIndirectBudget = 240 * time.Second
	}
	var known []string
	var unreachable []string
	var obRecords []map[string]any
	var samples []any
	for _, u := range units {
		for _, ob := range u.em.obls {
			rec := map[string]any{"name": ob.Name, "result": ob.Result, "solver": ob.Solver, "ms": ob.Ms}
			if ob.AllSolvers != "" {
				rec["all"] = ob.AllSolvers
			}
			if ob.Kind == "vacuity" {
				rec["kind"] = "vacuity (must be satisfiable)"
				obRecords = append(obRecords, rec)
				if ob.Result == "unsat" && (strings.Contains(ob.Name, "#vacuity#before-call") || (ob.Before != nil && ob.Before.Result == "unsat")) {
					// the path to this call is infeasible anyway (e.g. a deterministic callee asked the same
					// question twice): nothing the postcondition could make vacuous
					rec["note"] = "call on an infeasible path"
					unreachable = append(unreachable, ob.Name)
				} else if ob.Result == "unsat" && strings.Contains(ob.Name, "#vacuity#return") {
					// a return that cannot be reached under the precondition is legal (defensive code);
					// only an unreachable function exit or an unsatisfiable precondition is an alarm
					rec["note"] = "return path unreachable under the precondition"
					unreachable = append(unreachable, ob.Name)
				} else if ob.Result == "unsat" {
					fail(ob.Name, map[string]any{"error": "vacuity guard: precondition/exit path is unsatisfiable; contract or code makes the function unreachable", "file": ob.File}, true)
				}
				continue
			}
			obRecords = append(obRecords, rec)
			total++
			if ob.Result == "unsat" && !ob.Disagree {
				discharged++
				continue
			}
			// failed: known finding?
			kf := matchFinding(findings, cfg.ID, ob.Name)
			if kf != nil {
				okExcept := true
				if kf.Except != "" {
					okExcept = recheckExcept(u, ob, kf.Except, scfg)
				}
				if okExcept {
					total--
					msg := fmt.Sprintf("KNOWN-FINDING: property=%s %s :: %s", cfg.ID, ob.Name, kf.Desc)
					fmt.Println(msg)
					known = append(known, msg)
					continue
				}
			}
			fmt.Fprintf(os.Stderr, "FAILED %-7s %-6s %s\n", ob.Result, ob.Solver, ob.Name)
			payload := map[string]any{"result": ob.Result, "solver": ob.Solver, "solver_output": trunc(ob.Model, 20000), "position": ob.Pos, "function": ob.Func, "smt_file_kept": ""}
			noInput := true
			if !*noReplay && replaysDone < maxReplays && (ob.Result == "sat" || ob.Result == "unknown" || ob.Result == "timeout") {
				replaysDone++
				rp := replayObligation(ctx, u, ob, scfg, replayDir)
				for k, v := range rp.payload {
					payload[k] = v
				}
				noInput = !rp.reproduced
			}
			// keep the query next to the replay file
			if b, err := os.ReadFile(ob.File); err == nil {
				qf := filepath.Join(replayDir, sanitize(ob.Name)+".smt2")
				os.WriteFile(qf, b, 0o644)
				payload["smt_file_kept"] = qf
			}
			fail(ob.Name, payload, noInput)
		}
		if len(samples) < 6 && len(u.em.obls) > 1 {
			ob := u.em.obls[len(u.em.obls)/2]
			samples = append(samples, map[string]any{"obligation": ob.Name, "goal": trunc(ob.Goal, 400), "path_condition": trunc(ob.PC, 100), "result": ob.Result, "solver": ob.Solver})
		}
	}
	for _, f := range findings {
		if f.Property == cfg.ID && !f.Fixed && f.Obligation != "" && !seen[stableName(f.Obligation)] {
			fmt.Printf("note: known finding for %s names an obligation that is not generated: %s\n", cfg.ID, f.Obligation)
		}
	}
	_ = unreachable
	cov := map[string]any{"unreachable": unreachable, "total": total, "discharged": discharged, "records": obRecords, "samples": samples, "known": known}
	writeEvidence(*verif, &cfg, *tier, seed, units, cov, time.Since(t0).Seconds(), violations, ctx, *noEvidence)
	if *verbose {
		for _, r := range obRecords {
			fmt.Printf("  %-8v %-6v %5vms %v\n", r["result"], r["solver"], r["ms"], r["name"])
		}
	}
	var slow []string
	for _, r := range obRecords {
		if ms, ok := r["ms"].(int64); ok && ms > 3000 && r["kind"] == nil {
			slow = append(slow, fmt.Sprintf("%v(%dms)", r["name"], ms))
		}
	}
	if len(slow) > 0 {
		fmt.Fprintf(os.Stderr, "SLOW obligations (stability risk): %s\n", strings.Join(slow, "; "))
	}
	fmt.Printf("%s: %d/%d obligations discharged, %d known findings, %d violations, %.1fs\n", cfg.ID, discharged, total, len(known), violations, time.Since(t0).Seconds())
	if violations > 0 {
		os.Exit(1)
	}
}

// volatileName: names that legitimately change (none so far).
var reOrdinal = regexp.MustCompile(`(@\d+|/return\d+)`)

// stableName maps an obligation name to the part of it that harmless edits of the code do
// not change: obligations that stem from contract clauses keep their clause label (ordinals of
// repeated instances and return-site numbers are dropped); implicit safety obligations, whose
// text is the source expression (local variable names), are identified by function and kind.
func stableName(n string) string {
	parts := strings.SplitN(n, "#", 3)
	if len(parts) < 3 {
		return n
	}
	switch parts[1] {
	case "guarded-read", "guarded-write", "owner-call", "shared-write", "startup-call", "unguarded":
		// flow-analysis obligations exist per access site; moving an access into another
		// function is harmless: what must not disappear is the check of that field / kind
		return "*#" + parts[1] + "#" + reOrdinal.ReplaceAllString(parts[2], "")
	case "index", "nil", "slice", "divzero", "makeslice", "typeassert", "nilmap", "arith", "wrap", "panic", "copy-write", "errwrap":
		return parts[0] + "#" + parts[1]
	}
	return reOrdinal.ReplaceAllString(n, "")
}

func seenPrefix(seen map[string]bool, n string) bool {
	for k := range seen {
		if k == n || strings.HasPrefix(k, n) {
			return true
		}
	}
	return false
}

func matchFinding(fs []Finding, prop, ob string) *Finding {
	for i := range fs {
		f := &fs[i]
		if f.Fixed || f.Property != prop || f.Obligation == "" {
			continue
		}
		if f.Obligation == ob || stableName(f.Obligation) == stableName(ob) {
			// ordinals of repeated instances (@N) shift with unrelated edits: a finding covers
			// every instance of the same function / kind / field
			return f
		}
	}
	return nil
}

// recheckExcept re-proves a known-failing obligation under the extra assumption
// that the recorded failing input class is excluded: any *other* failure still counts.
func recheckExcept(u *Unit, ob *Obligation, except string, cfg *SolverCfg) bool {
	cl, err := parseClause(except)
	if err != nil {
		fmt.Println("bad except clause:", err)
		return false
	}
	env := &SpecEnv{u: u, st: u.entry, old: u.entry, vars: u.topParams, oldVars: u.topParams, pkg: u.con.Pkg, fr: &Frame{u: u, fn: u.fn, pure: true}}
	n0 := len(u.errs)
	t := env.boolExpr(cl.Expr)
	if len(u.errs) > n0 {
		fmt.Println("except clause not translatable:", u.errs[n0:])
		return false
	}
	ob2 := *ob
	ob2.Result = ""
	ob2.KnownFail = false
	ob2.Extra = append(append([]string{}, ob.Extra...), fmt.Sprintf("(assert (not %s))", t))
	solveOne(u, &ob2, cfg, 900000+len(u.em.obls))
	return ob2.Result == "unsat"
}

func writeEvidence(verif string, cfg *PropCfg, tier string, seed int, units []*Unit, cov map[string]any, wall float64, violations int, ctx *Ctx, skip bool) {
	if skip {
		return
	}
	level := cfg.Level
	if level == "" {
		level = "proof"
	}
	coverage := map[string]any{}
	var fnames []string
	assumptions := append([]string{}, cfg.Assumptions...)
	inl := map[string]bool{}
	specs := map[string]bool{}
	var solverMs int64
	seenAss := map[string]bool{}
	for _, u := range units {
		fnames = append(fnames, u.unitName())
		for _, a := range u.em.assumes {
			if !seenAss[a] {
				seenAss[a] = true
				assumptions = append(assumptions, a)
			}
		}
		for k := range u.em.inlined {
			inl[k] = true
		}
		for k := range u.em.usedSpecs {
			specs[k] = true
		}
		for _, ob := range u.em.obls {
			solverMs += ob.Ms
		}
	}
	if ctx != nil {
		var tr []string
		for k, c := range ctx.externs {
			if specs[k] {
				tr = append(tr, "extern contract (assumed): "+k+" @ "+c.Line)
			}
		}
		for pkg, m := range ctx.contracts {
			for k, c := range m {
				if c.Trusted && specs[pkgShort(pkg)+"."+k] {
					tr = append(tr, "trusted contract (body not verified): "+pkgShort(pkg)+"."+k)
				}
			}
		}
		sort.Strings(tr)
		assumptions = append(assumptions, tr...)
	}
	if cov != nil {
		coverage["obligations"] = cov["total"]
		coverage["discharged"] = cov["discharged"]
		coverage["obligation_records"] = cov["records"]
		coverage["samples"] = cov["samples"]
		coverage["known_findings"] = cov["known"]
		coverage["unreachable_returns"] = cov["unreachable"]
	} else {
		coverage["obligations"] = 0
		coverage["discharged"] = 0
		coverage["samples"] = []any{}
	}
	coverage["checker_cmd"] = fmt.Sprintf("./check %s --tier %s  (govc: go/ssa naive-form lowering -> SMT-LIB; race of z3-new 5.1.0, z3 4.8.12, cvc5 1.0)", cfg.ID, tier)
	coverage["trusted_base"] = append([]string{"govc lowering and VC generation (this repository, /verif/engine)", "golang.org/x/tools/go/ssa v0.29.0, go/types", "z3 4.8.12, z3 5.1.0, cvc5 1.0.x"}, cfg.TrustedBase...)
	coverage["functions_under_contract"] = fnames
	var il []string
	for k := range inl {
		il = append(il, k)
	}
	sort.Strings(il)
	coverage["inlined_helpers"] = il
	var sp []string
	for k := range specs {
		sp = append(sp, k)
	}
	sort.Strings(sp)
	coverage["callee_contracts_used"] = sp
	coverage["solver_time_ms"] = solverMs
	coverage["bounded"] = cfg.Bounded
	coverage["unclaimed"] = cfg.Unclaimed
	coverage["explanation"] = cfg.Explanation
	coverage["integer_model"] = "signed: mathematical integers (overflow assumed absent unless the contract says 'arith'); unsigned: exact modulo 2^w; float64: SMT Real"
	ev := map[string]any{"property_id": cfg.ID, "tier": tier, "seed": seed, "level": level, "coverage": coverage, "assumptions": assumptions, "wall_s": wall, "violations": violations}
	b, _ := json.MarshalIndent(ev, "", " ")
	os.MkdirAll(filepath.Join(verif, "evidence"), 0o755)
	os.WriteFile(filepath.Join(verif, "evidence", cfg.ID+".json"), b, 0o644)
}
