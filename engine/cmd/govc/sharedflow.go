package main

// Read-only-frame obligations on shared state (C07): outside the declared start-up
// functions, no store may go through an address derived from a value of a declared
// shared type (parameter, receiver, captured variable, global or anything loaded from them).

import (
	"fmt"
	"go/token"
	"go/types"
	"sort"
	"strings"

	"golang.org/x/tools/go/ssa"
)

type SharedDecl struct {
	Types   map[string]bool // type names (in the declaring package)
	Startup map[string]bool // function names allowed to write (run before requests are served)
	Globals bool
	Reviewed map[string]bool // package-level variables whose address may escape to calls while serving
}

// sharedRoot walks an address/value back to its origin and reports whether it derives
// from shared state; desc describes the path.
func (c *Ctx) sharedRoot(v ssa.Value, sd *SharedDecl, depth int, seen map[ssa.Value]bool) (bool, string) {
	if depth > 12 || seen[v] {
		return false, ""
	}
	seen[v] = true
	isSharedType := func(t types.Type) (bool, string) {
		for {
			if pt, ok := t.Underlying().(*types.Pointer); ok {
				t = pt.Elem()
				continue
			}
			break
		}
		if n, ok := t.(*types.Named); ok && n.Obj().Pkg() != nil && strings.HasPrefix(n.Obj().Pkg().Path(), repoMod) && sd.Types[n.Obj().Name()] {
			return true, n.Obj().Name()
		}
		return false, ""
	}
	switch x := v.(type) {
	case *ssa.Parameter:
		if ok, n := isSharedType(x.Type()); ok {
			return true, "param " + x.Name() + " (" + n + ")"
		}
	case *ssa.FreeVar:
		if ok, n := isSharedType(x.Type()); ok {
			return true, "captured " + x.Name() + " (" + n + ")"
		}
	case *ssa.Global:
		if sd.Globals && x.Pkg != nil && strings.HasPrefix(x.Pkg.Pkg.Path(), repoMod) {
			return true, "global " + x.Name()
		}
	case *ssa.Alloc:
		// a local: shared only if something shared was stored into it (pointer copy)
		if refs := x.Referrers(); refs != nil {
			for _, r := range *refs {
				if st, ok := r.(*ssa.Store); ok && st.Addr == x {
					if _, isPtr := st.Val.Type().Underlying().(*types.Pointer); isPtr {
						if ok, d := c.sharedRoot(st.Val, sd, depth+1, seen); ok {
							return true, d
						}
					}
				}
			}
		}
	case *ssa.FieldAddr:
		return c.sharedRoot(x.X, sd, depth+1, seen)
	case *ssa.IndexAddr:
		return c.sharedRoot(x.X, sd, depth+1, seen)
	case *ssa.UnOp:
		if x.Op == token.MUL {
			// loading a pointer/slice/map out of shared state yields shared state;
			// loading a struct VALUE makes a private copy
			switch x.Type().Underlying().(type) {
			case *types.Pointer, *types.Slice, *types.Map:
				return c.sharedRoot(x.X, sd, depth+1, seen)
			}
			return false, ""
		}
	case *ssa.Lookup:
		switch x.Type().Underlying().(type) {
		case *types.Pointer, *types.Slice, *types.Map:
			return c.sharedRoot(x.X, sd, depth+1, seen)
		}
		if tup, ok := x.Type().(*types.Tuple); ok && tup.Len() == 2 {
			switch tup.At(0).Type().Underlying().(type) {
			case *types.Pointer, *types.Slice, *types.Map:
				return c.sharedRoot(x.X, sd, depth+1, seen)
			}
		}
	case *ssa.Extract:
		return c.sharedRoot(x.Tuple, sd, depth+1, seen)
	case *ssa.Slice:
		return c.sharedRoot(x.X, sd, depth+1, seen)
	case *ssa.ChangeType:
		return c.sharedRoot(x.X, sd, depth+1, seen)
	case *ssa.Phi:
		for _, e := range x.Edges {
			if ok, d := c.sharedRoot(e, sd, depth+1, seen); ok {
				return true, d
			}
		}
	case *ssa.Call:
		// method on shared receiver returning a reference: conservatively shared for selected getters only
	}
	return false, ""
}

func (c *Ctx) sharedFlowFunc(fn *ssa.Function, sd *SharedDecl) []*Obligation {
	if fn.Blocks == nil || c.isGhostFile(fn) {
		return nil
	}
	root := fn
	for root.Parent() != nil {
		root = root.Parent()
	}
	if sd.Startup[root.Name()] || strings.HasPrefix(root.Name(), "init") {
		return nil
	}
	var obs []*Obligation
	seenName := map[string]int{}
	add := func(ins ssa.Instruction, addr ssa.Value, what string) {
		shared, desc := c.sharedRoot(addr, sd, 0, map[ssa.Value]bool{})
		name := fmt.Sprintf("%s#shared-write#%s", c.funcKey(fn), what)
		seenName[name]++
		if n := seenName[name]; n > 1 {
			name = fmt.Sprintf("%s@%d", name, n)
		}
		ob := &Obligation{Name: name, Kind: "shared-write", Func: c.funcKey(fn), Solver: "sharedflow", Goal: "target not derived from shared state", PC: "true", Result: "unsat"}
		if ins.Pos().IsValid() {
			p := c.fset.Position(ins.Pos())
			ob.Pos = fmt.Sprintf("%s:%d", p.Filename, p.Line)
		}
		if shared {
			ob.Result = "sat"
			ob.Model = fmt.Sprintf("store at %s writes through %s", ob.Pos, desc)
		}
		obs = append(obs, ob)
	}
	// start-up functions (allowed to write shared state) must not be called while serving
	nc := 0
	for _, b := range fn.Blocks {
		for _, ins := range b.Instrs {
			var cc *ssa.CallCommon
			switch x := ins.(type) {
			case *ssa.Call:
				cc = x.Common()
			case *ssa.Go:
				cc = x.Common()
			case *ssa.Defer:
				cc = x.Common()
			}
			if cc == nil {
				continue
			}
			// the address of a package-level variable handed to a call (e.g. a method with pointer
			// receiver on a map/cache/counter variable) is shared mutable state in the request path
			for _, a := range cc.Args {
				g, ok := a.(*ssa.Global)
				if !ok || g.Pkg == nil || !strings.HasPrefix(g.Pkg.Pkg.Path(), repoMod) {
					continue
				}
				name := fmt.Sprintf("%s#shared-write#global-escape.%s", c.funcKey(fn), g.Name())
				seenName[name]++
				if n := seenName[name]; n > 1 {
					name = fmt.Sprintf("%s@%d", name, n)
				}
				ob := &Obligation{Name: name, Kind: "shared-write", Func: c.funcKey(fn), Solver: "sharedflow", Goal: "package-level variable not handed to a call while serving", PC: "true", Result: "unsat"}
				if ins.Pos().IsValid() {
					p := c.fset.Position(ins.Pos())
					ob.Pos = fmt.Sprintf("%s:%d", p.Filename, p.Line)
				}
				if !sd.Reviewed[g.Name()] {
					ob.Result = "sat"
					ob.Model = fmt.Sprintf("the address of package-level variable %s is passed to a call at %s outside the start-up functions (shared mutable state such as a cache); if this is intended and safe, list it under reviewed_globals", g.Name(), ob.Pos)
				}
				obs = append(obs, ob)
			}
			callee := cc.StaticCallee()
			if callee == nil || callee.Pkg == nil || callee.Pkg != root.Pkg {
				continue
			}
			croot := callee
			for croot.Parent() != nil {
				croot = croot.Parent()
			}
			if sd.Startup[croot.Name()] {
				nc++
				ob := &Obligation{Name: fmt.Sprintf("%s#startup-call#%s@%d", c.funcKey(fn), croot.Name(), nc), Kind: "shared-write", Func: c.funcKey(fn), Solver: "sharedflow", Goal: "start-up function not called while serving", PC: "true", Result: "sat",
					Model: fmt.Sprintf("%s is declared a start-up function (may write shared state) but is called from %s", croot.Name(), c.funcKey(fn))}
				if ins.Pos().IsValid() {
					p := c.fset.Position(ins.Pos())
					ob.Pos = fmt.Sprintf("%s:%d", p.Filename, p.Line)
				}
				obs = append(obs, ob)
			}
		}
	}
	for _, b := range fn.Blocks {
		for _, ins := range b.Instrs {
			switch x := ins.(type) {
			case *ssa.Store:
				switch a := x.Addr.(type) {
				case *ssa.FieldAddr:
					st := a.X.Type().Underlying().(*types.Pointer).Elem().Underlying().(*types.Struct)
					add(x, a, typeShort(a.X.Type().Underlying().(*types.Pointer).Elem())+"."+st.Field(a.Field).Name())
				case *ssa.IndexAddr:
					add(x, a, "elem("+typeShort(a.Type().Underlying().(*types.Pointer).Elem())+")")
				case *ssa.Global:
					add(x, a, "global."+a.Name())
				case *ssa.UnOp, *ssa.Parameter, *ssa.FreeVar, *ssa.Phi, *ssa.Extract, *ssa.Call, *ssa.Lookup:
					add(x, a, "deref("+typeShort(a.Type())+")")
				}
			case *ssa.MapUpdate:
				add(x, x.Map, "map("+typeShort(x.Map.Type())+")")
			}
		}
	}
	return obs
}

func (c *Ctx) sharedFlowAll(pkgPaths map[string]bool) []*Obligation {
	var all []*ssa.Function
	var add func(f *ssa.Function)
	add = func(f *ssa.Function) {
		all = append(all, f)
		for _, an := range f.AnonFuncs {
			add(an)
		}
	}
	for _, fn := range c.funcsByKey {
		if fn.Pkg != nil && pkgPaths[fn.Pkg.Pkg.Path()] && fn.Parent() == nil {
			add(fn)
		}
	}
	sort.Slice(all, func(i, j int) bool { return c.funcKey(all[i])+all[i].Name() < c.funcKey(all[j])+all[j].Name() })
	var obs []*Obligation
	for _, f := range all {
		sd := c.shared[f.Pkg.Pkg.Path()]
		if sd == nil {
			continue
		}
		obs = append(obs, c.sharedFlowFunc(f, sd)...)
	}
	return obs
}
