package main

// Read-only-frame obligations on shared state (C07): outside the declared start-up
// functions, no store may go through an address derived from a value of a declared
// shared type (parameter, receiver, captured variable, global or anything loaded from them).

import (
	"fmt"
	"go/token"
	"go/types"
	"sort"
	"strings"

	"golang.org/x/tools/go/ssa"
)

type SharedDecl struct {
	Types   map[string]bool // type names (in the declaring package)
	Startup map[string]bool // function names allowed to write (run before requests are served)
	Globals bool
	Reviewed map[string]bool // package-level variables whose address may escape to calls while serving
	Mutable  map[string]bool // types whose instances are per-session mutable state reachable from shared state (own synchronisation discipline: lockflow)
}

// hasRefs: values of this type can alias memory (pointer, slice, map, or a struct/array holding one).
func hasRefs(t types.Type, depth int) bool {
	if depth > 6 {
		return true
	}
	switch u := t.Underlying().(type) {
	case *types.Pointer, *types.Slice, *types.Map, *types.Interface, *types.Chan, *types.Signature:
		return true
	case *types.Struct:
		for i := 0; i < u.NumFields(); i++ {
			if hasRefs(u.Field(i).Type(), depth+1) {
				return true
			}
		}
	case *types.Array:
		return hasRefs(u.Elem(), depth+1)
	case *types.Tuple:
		for i := 0; i < u.Len(); i++ {
			if hasRefs(u.At(i).Type(), depth+1) {
				return true
			}
		}
	}
	return false
}

// sharedRoot reports whether VALUE v (a pointer, slice, map, or a struct value holding such
// references) derives from shared state: a parameter / receiver / captured variable of a declared
// shared type, a package-level variable, a parameter that some caller hands shared state to
// (c.sharedParams, interprocedural fixpoint), or anything loaded, indexed, sliced, looked up,
// appended to or copied (struct value) out of such a value. A store through a shared pointer,
// into an element of a shared slice/array, or a map update / append / copy with a shared
// destination is a write to shared state.
func (c *Ctx) sharedRoot(v ssa.Value, sd *SharedDecl, depth int, seen map[ssa.Value]bool) (bool, string) {
	if depth > 16 || seen[v] {
		return false, ""
	}
	seen[v] = true
	isSharedType := func(t types.Type) (bool, string) {
		for {
			if pt, ok := t.Underlying().(*types.Pointer); ok {
				t = pt.Elem()
				continue
			}
			break
		}
		if n, ok := t.(*types.Named); ok && n.Obj().Pkg() != nil && strings.HasPrefix(n.Obj().Pkg().Path(), repoMod) && sd.Types[n.Obj().Name()] {
			return true, n.Obj().Name()
		}
		return false, ""
	}
	// session state with its own discipline (declared mutable_types) is not read-only shared state
	{
		t := v.Type()
		for {
			if pt, ok := t.Underlying().(*types.Pointer); ok {
				t = pt.Elem()
				continue
			}
			break
		}
		if n, ok := t.(*types.Named); ok && n.Obj().Pkg() != nil && strings.HasPrefix(n.Obj().Pkg().Path(), repoMod) && sd.Mutable[n.Obj().Name()] {
			return false, ""
		}
	}
	switch x := v.(type) {
	case *ssa.Parameter:
		if ok, n := isSharedType(x.Type()); ok {
			if _, isPtr := x.Type().Underlying().(*types.Pointer); isPtr || hasRefs(x.Type(), 0) {
				return true, "param " + x.Name() + " (" + n + ")"
			}
		}
		if d, ok := c.sharedParams[x]; ok {
			return true, "param " + x.Name() + " <- " + d
		}
	case *ssa.FreeVar:
		if ok, n := isSharedType(x.Type()); ok {
			return true, "captured " + x.Name() + " (" + n + ")"
		}
	case *ssa.Global:
		if sd.Globals && x.Pkg != nil && strings.HasPrefix(x.Pkg.Pkg.Path(), repoMod) {
			return true, "global " + x.Name()
		}
	case *ssa.Alloc:
		// the ADDRESS of a local is private; what matters is what was stored into it (see localHolds)
		return false, ""
	case *ssa.FieldAddr:
		// address of a field: shared iff the struct it lies in is reached through a shared pointer
		return c.sharedRoot(x.X, sd, depth+1, seen)
	case *ssa.IndexAddr:
		return c.sharedRoot(x.X, sd, depth+1, seen)
	case *ssa.UnOp:
		if x.Op == token.MUL {
			if !hasRefs(x.Type(), 0) {
				return false, "" // a plain number/string copied out of shared state is private
			}
			// loaded through a shared address: the loaded references (also inside a struct copy) are shared
			if ok, d := c.sharedRoot(x.X, sd, depth+1, seen); ok {
				return true, d
			}
			// loaded from a local variable (or a field path of one) that holds shared references;
			// a store to that very variable earlier in the same block is the one that reaches the load
			if al, isAlloc := x.X.(*ssa.Alloc); isAlloc && x.Block() != nil {
				var last *ssa.Store
				for _, ins := range x.Block().Instrs {
					if ins == ssa.Instruction(x) {
						break
					}
					if st, ok := ins.(*ssa.Store); ok && st.Addr == ssa.Value(al) {
						last = st
					}
				}
				if last != nil {
					if !hasRefs(last.Val.Type(), 0) {
						return false, ""
					}
					return c.sharedRoot(last.Val, sd, depth+1, seen)
				}
			}
			if ok, d := c.localHolds(x.X, sd, depth+1, seen); ok {
				return true, d
			}
			return false, ""
		}
	case *ssa.Field:
		if !hasRefs(x.Type(), 0) {
			return false, ""
		}
		return c.sharedRoot(x.X, sd, depth+1, seen)
	case *ssa.Index:
		if !hasRefs(x.Type(), 0) {
			return false, ""
		}
		return c.sharedRoot(x.X, sd, depth+1, seen)
	case *ssa.Lookup:
		if !hasRefs(x.Type(), 0) {
			return false, ""
		}
		return c.sharedRoot(x.X, sd, depth+1, seen)
	case *ssa.Extract:
		if !hasRefs(x.Type(), 0) {
			return false, ""
		}
		return c.sharedRoot(x.Tuple, sd, depth+1, seen)
	case *ssa.Next:
		return c.sharedRoot(x.Iter, sd, depth+1, seen)
	case *ssa.Range:
		return c.sharedRoot(x.X, sd, depth+1, seen)
	case *ssa.Slice:
		if ok, d := c.sharedRoot(x.X, sd, depth+1, seen); ok {
			return true, d
		}
		// slicing a local array variable that holds ... (arrays of references): private memory
		return false, ""
	case *ssa.ChangeType:
		return c.sharedRoot(x.X, sd, depth+1, seen)
	case *ssa.MakeInterface:
		return c.sharedRoot(x.X, sd, depth+1, seen)
	case *ssa.TypeAssert:
		return c.sharedRoot(x.X, sd, depth+1, seen)
	case *ssa.Phi:
		for _, e := range x.Edges {
			if ok, d := c.sharedRoot(e, sd, depth+1, seen); ok {
				return true, d
			}
		}
	case *ssa.Call:
		// append(s, ...) may return (and write into) the backing array of s
		if b, ok := x.Call.Value.(*ssa.Builtin); ok && b.Name() == "append" && len(x.Call.Args) > 0 {
			return c.sharedRoot(x.Call.Args[0], sd, depth+1, seen)
		}
	}
	return false, ""
}

// localHolds: addr is (a field/element path of) a local variable into which a value deriving
// from shared state was stored (e.g. `d := cfg.Map[name]` - a struct copy whose slice fields still
// alias the shared configuration).
func (c *Ctx) localHolds(addr ssa.Value, sd *SharedDecl, depth int, seen map[ssa.Value]bool) (bool, string) {
	base := addr
	for {
		switch a := base.(type) {
		case *ssa.FieldAddr:
			base = a.X
			continue
		case *ssa.IndexAddr:
			if _, isAlloc := a.X.(*ssa.Alloc); isAlloc {
				base = a.X
				continue
			}
			if fa, ok := a.X.(*ssa.FieldAddr); ok {
				base = fa
				continue
			}
		}
		break
	}
	al, ok := base.(*ssa.Alloc)
	if !ok {
		return false, ""
	}
	refs := al.Referrers()
	if refs == nil {
		return false, ""
	}
	var visit func(v ssa.Value) (bool, string)
	visit = func(v ssa.Value) (bool, string) {
		r := v.Referrers()
		if r == nil {
			return false, ""
		}
		for _, u := range *r {
			switch st := u.(type) {
			case *ssa.Store:
				if st.Addr == v && hasRefs(st.Val.Type(), 0) {
					if ok, d := c.sharedRoot(st.Val, sd, depth+1, seen); ok {
						return true, d
					}
				}
			case *ssa.FieldAddr:
				if st.X == v {
					if ok, d := visit(st); ok {
						return true, d
					}
				}
			case *ssa.IndexAddr:
				if st.X == v {
					if ok, d := visit(st); ok {
						return true, d
					}
				}
			}
		}
		return false, ""
	}
	return visit(al)
}

// computeSharedParams: parameters (of functions in the analysed packages) that receive a value
// deriving from shared state at some call site outside the start-up functions (fixpoint).
func (c *Ctx) computeSharedParams(all []*ssa.Function) {
	c.sharedParams = map[*ssa.Parameter]string{}
	for round := 0; round < 8; round++ {
		changed := false
		for _, fn := range all {
			if fn.Blocks == nil || c.isGhostFile(fn) || fn.Pkg == nil {
				continue
			}
			sd := c.shared[fn.Pkg.Pkg.Path()]
			if sd == nil {
				continue
			}
			root := fn
			for root.Parent() != nil {
				root = root.Parent()
			}
			if sd.Startup[root.Name()] || strings.HasPrefix(root.Name(), "init") {
				continue
			}
			for _, b := range fn.Blocks {
				for _, ins := range b.Instrs {
					var cc *ssa.CallCommon
					switch x := ins.(type) {
					case *ssa.Call:
						cc = x.Common()
					case *ssa.Go:
						cc = x.Common()
					case *ssa.Defer:
						cc = x.Common()
					}
					if cc == nil || cc.IsInvoke() {
						continue
					}
					callee := cc.StaticCallee()
					if callee == nil || callee.Blocks == nil || callee.Pkg == nil || c.shared[callee.Pkg.Pkg.Path()] == nil || c.isGhostFile(callee) {
						continue
					}
					croot := callee
					for croot.Parent() != nil {
						croot = croot.Parent()
					}
					if c.shared[callee.Pkg.Pkg.Path()].Startup[croot.Name()] {
						continue
					}
					for i, a := range cc.Args {
						if i >= len(callee.Params) || !hasRefs(a.Type(), 0) {
							continue
						}
						if _, done := c.sharedParams[callee.Params[i]]; done {
							continue
						}
						if ok, d := c.sharedRoot(a, sd, 0, map[ssa.Value]bool{}); ok {
							c.sharedParams[callee.Params[i]] = fmt.Sprintf("%s (from %s)", d, c.funcKey(fn))
							changed = true
						}
					}
				}
			}
		}
		if !changed {
			break
		}
	}
}

func (c *Ctx) sharedFlowFunc(fn *ssa.Function, sd *SharedDecl) []*Obligation {
	if fn.Blocks == nil || c.isGhostFile(fn) {
		return nil
	}
	root := fn
	for root.Parent() != nil {
		root = root.Parent()
	}
	if sd.Startup[root.Name()] || strings.HasPrefix(root.Name(), "init") {
		return nil
	}
	var obs []*Obligation
	seenName := map[string]int{}
	add := func(ins ssa.Instruction, addr ssa.Value, what string) {
		shared, desc := c.sharedRoot(addr, sd, 0, map[ssa.Value]bool{})
		name := fmt.Sprintf("%s#shared-write#%s", c.funcKey(fn), what)
		seenName[name]++
		if n := seenName[name]; n > 1 {
			name = fmt.Sprintf("%s@%d", name, n)
		}
		ob := &Obligation{Name: name, Kind: "shared-write", Func: c.funcKey(fn), Solver: "sharedflow", Goal: "target not derived from shared state", PC: "true", Result: "unsat"}
		if ins.Pos().IsValid() {
			p := c.fset.Position(ins.Pos())
			ob.Pos = fmt.Sprintf("%s:%d", p.Filename, p.Line)
		}
		if shared {
			ob.Result = "sat"
			ob.Model = fmt.Sprintf("store at %s writes through %s", ob.Pos, desc)
		}
		obs = append(obs, ob)
	}
	// start-up functions (allowed to write shared state) must not be called while serving
	nc := 0
	for _, b := range fn.Blocks {
		for _, ins := range b.Instrs {
			var cc *ssa.CallCommon
			switch x := ins.(type) {
			case *ssa.Call:
				cc = x.Common()
			case *ssa.Go:
				cc = x.Common()
			case *ssa.Defer:
				cc = x.Common()
			}
			if cc == nil {
				continue
			}
			// the address of a package-level variable handed to a call (e.g. a method with pointer
			// receiver on a map/cache/counter variable) is shared mutable state in the request path
			for _, a := range cc.Args {
				g, ok := a.(*ssa.Global)
				if !ok || g.Pkg == nil || !strings.HasPrefix(g.Pkg.Pkg.Path(), repoMod) {
					continue
				}
				name := fmt.Sprintf("%s#shared-write#global-escape.%s", c.funcKey(fn), g.Name())
				seenName[name]++
				if n := seenName[name]; n > 1 {
					name = fmt.Sprintf("%s@%d", name, n)
				}
				ob := &Obligation{Name: name, Kind: "shared-write", Func: c.funcKey(fn), Solver: "sharedflow", Goal: "package-level variable not handed to a call while serving", PC: "true", Result: "unsat"}
				if ins.Pos().IsValid() {
					p := c.fset.Position(ins.Pos())
					ob.Pos = fmt.Sprintf("%s:%d", p.Filename, p.Line)
				}
				if !sd.Reviewed[g.Name()] {
					ob.Result = "sat"
					ob.Model = fmt.Sprintf("the address of package-level variable %s is passed to a call at %s outside the start-up functions (shared mutable state such as a cache); if this is intended and safe, list it under reviewed_globals", g.Name(), ob.Pos)
				}
				obs = append(obs, ob)
			}
			callee := cc.StaticCallee()
			if callee == nil || callee.Pkg == nil || callee.Pkg != root.Pkg {
				continue
			}
			croot := callee
			for croot.Parent() != nil {
				croot = croot.Parent()
			}
			if sd.Startup[croot.Name()] {
				nc++
				ob := &Obligation{Name: fmt.Sprintf("%s#startup-call#%s@%d", c.funcKey(fn), croot.Name(), nc), Kind: "shared-write", Func: c.funcKey(fn), Solver: "sharedflow", Goal: "start-up function not called while serving", PC: "true", Result: "sat",
					Model: fmt.Sprintf("%s is declared a start-up function (may write shared state) but is called from %s", croot.Name(), c.funcKey(fn))}
				if ins.Pos().IsValid() {
					p := c.fset.Position(ins.Pos())
					ob.Pos = fmt.Sprintf("%s:%d", p.Filename, p.Line)
				}
				obs = append(obs, ob)
			}
		}
	}
	for _, b := range fn.Blocks {
		for _, ins := range b.Instrs {
			switch x := ins.(type) {
			case *ssa.Store:
				switch a := x.Addr.(type) {
				case *ssa.FieldAddr:
					st := a.X.Type().Underlying().(*types.Pointer).Elem().Underlying().(*types.Struct)
					add(x, a, typeShort(a.X.Type().Underlying().(*types.Pointer).Elem())+"."+st.Field(a.Field).Name())
				case *ssa.IndexAddr:
					add(x, a, "elem("+typeShort(a.Type().Underlying().(*types.Pointer).Elem())+")")
				case *ssa.Global:
					add(x, a, "global."+a.Name())
				case *ssa.UnOp, *ssa.Parameter, *ssa.FreeVar, *ssa.Phi, *ssa.Extract, *ssa.Call, *ssa.Lookup:
					add(x, a, "deref("+typeShort(a.Type())+")")
				}
			case *ssa.MapUpdate:
				add(x, x.Map, "map("+typeShort(x.Map.Type())+")")
			case *ssa.Call:
				if bi, ok := x.Call.Value.(*ssa.Builtin); ok && len(x.Call.Args) > 0 {
					switch bi.Name() {
					case "append":
						// appending to a slice that shares its backing array with shared state may
						// overwrite elements beyond its length (in-place filtering, spare capacity)
						add(x, x.Call.Args[0], "append("+typeShort(x.Call.Args[0].Type())+")")
					case "copy":
						add(x, x.Call.Args[0], "copy("+typeShort(x.Call.Args[0].Type())+")")
					case "delete", "clear":
						add(x, x.Call.Args[0], bi.Name()+"("+typeShort(x.Call.Args[0].Type())+")")
					}
				}
			}
		}
	}
	return obs
}

func (c *Ctx) sharedFlowAll(pkgPaths map[string]bool) []*Obligation {
	var all []*ssa.Function
	var add func(f *ssa.Function)
	add = func(f *ssa.Function) {
		all = append(all, f)
		for _, an := range f.AnonFuncs {
			add(an)
		}
	}
	for _, fn := range c.funcsByKey {
		if fn.Pkg != nil && pkgPaths[fn.Pkg.Pkg.Path()] && fn.Parent() == nil {
			add(fn)
		}
	}
	sort.Slice(all, func(i, j int) bool { return c.funcKey(all[i])+all[i].Name() < c.funcKey(all[j])+all[j].Name() })
	c.computeSharedParams(all)
	var obs []*Obligation
	for _, f := range all {
		sd := c.shared[f.Pkg.Pkg.Path()]
		if sd == nil {
			continue
		}
		obs = append(obs, c.sharedFlowFunc(f, sd)...)
	}
	return obs
}
