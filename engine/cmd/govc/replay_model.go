package main

// Staged extraction of concrete values from a solver model of a failed obligation.
// Terms are requested on demand (get); flush() runs one solver round with all
// pending terms as (get-value ...) and pins the answers with (assert (= term value))
// so that later rounds stay consistent with earlier ones.

import (
	"context"
	"fmt"
	"go/types"
	"os"
	"os/exec"
	"path/filepath"
	"strings"
	"time"
)

type pendTerm struct {
	term string
	ty   types.Type // nil: raw Int/Bool term
	srt  string     // SMT sort of the term
	inv  string     // instantiated invariant asserted together with the request
}

type rmodel struct {
	u       *Unit
	ob      *Obligation
	cfg     *SolverCfg
	workdir string

	solver  string // chosen solver ("" until the first successful round)
	prefTag string // query variant to try first (set by callers that already know what works)
	quick   bool   // candidate search: skip the expensive full query
	banned  map[string]bool
	exclude map[string]bool // query variants not to use (they produced invalid candidates)
	variant string          // tag of the variant that produced the model
	noquant bool            // model-finding variant: quantified lines dropped
	nice    []string
	useNice bool

	cache    map[string]*sx
	pins     []string
	invs     []string
	invSeen  map[string]bool
	pending  []pendTerm
	pendSeen map[string]bool
	rounds   int
	log      []string
	failed   string
	declared map[string]bool
}

func newRModel(u *Unit, ob *Obligation, cfg *SolverCfg, workdir string) *rmodel {
	m := &rmodel{u: u, ob: ob, cfg: cfg, workdir: workdir, cache: map[string]*sx{}, invSeen: map[string]bool{},
		pendSeen: map[string]bool{}, declared: map[string]bool{}}
	scan := func(l string) {
		for _, pfx := range []string{"(declare-const ", "(declare-fun "} {
			if strings.HasPrefix(l, pfx) {
				rest := l[len(pfx):]
				if i := strings.IndexAny(rest, " )"); i > 0 {
					m.declared[rest[:i]] = true
				}
			}
		}
	}
	for _, l := range u.em.preamble {
		scan(l)
	}
	at := ob.At
	if at > len(u.em.lines) {
		at = len(u.em.lines)
	}
	for _, l := range u.em.lines[:at] {
		scan(l)
	}
	return m
}

func (m *rmodel) logf(format string, a ...any) {
	m.log = append(m.log, fmt.Sprintf(format, a...))
}

// get returns the model value of term, or nil if it has to be fetched by the next flush.
func (m *rmodel) get(term string, ty types.Type, srt, inv string) *sx {
	if v, ok := m.cache[term]; ok {
		return v
	}
	if !m.pendSeen[term] {
		m.pendSeen[term] = true
		if ty != nil {
			srt = m.u.em.sortOf(ty)
		}
		m.pending = append(m.pending, pendTerm{term: term, ty: ty, srt: srt, inv: inv})
	}
	return nil
}

func (m *rmodel) getTyped(term string, ty types.Type) *sx {
	if v, ok := m.cache[term]; ok {
		return v
	}
	inv := ""
	if ty != nil {
		inv = m.u.em.typeInv(term, ty)
	}
	return m.get(term, ty, "", inv)
}

func solverAvailable(s string) bool {
	bin := map[string]string{"z3new": "z3-new", "z3": "z3", "cvc5": "cvc5"}[s]
	if bin == "" {
		return false
	}
	_, err := exec.LookPath(bin)
	return err == nil
}

var replaySolverPref = []string{"z3new", "z3", "cvc5"}

// queryText: the obligation's query plus pins; every requested term is read through an
// auxiliary constant (solvers do not always reduce (get-value (f x)) to a value).
func (m *rmodel) queryText(pend []pendTerm, nice, noquant bool) string {
	ob2 := *m.ob
	extra := append([]string{}, m.ob.Extra...)
	if nice {
		extra = append(extra, m.nice...)
	}
	extra = append(extra, m.invs...)
	extra = append(extra, m.pins...)
	var terms []string
	for i, p := range pend {
		q := fmt.Sprintf("govcq!%d", i)
		extra = append(extra, fmt.Sprintf("(declare-const %s %s)", q, p.srt), fmt.Sprintf("(assert (= %s %s))", q, p.term))
		terms = append(terms, q)
	}
	ob2.Extra = extra
	text := m.u.queryText(&ob2, terms)
	if !noquant {
		return text
	}
	var b strings.Builder
	for _, l := range strings.Split(text, "\n") {
		if strings.Contains(l, "(forall") || strings.Contains(l, "(exists") {
			if !strings.HasPrefix(l, "(get-value") {
				// keep what can be kept of the line: universally quantified parts are
				// replaced by true (a weakening); if that is not possible the line is dropped
				if w, ok := weakenLine(l); ok {
					b.WriteString(w)
					b.WriteByte('\n')
				}
				continue
			}
		}
		b.WriteString(l)
		b.WriteByte('\n')
	}
	return b.String()
}

// weakenLine rewrites "(assert F)" into a consequence of F without universal
// quantification: forall in positive position becomes true, exists in negative
// position becomes false; existential parts are kept. ok=false: drop the line.
func weakenLine(l string) (string, bool) {
	xs, err := parseSexprs(l)
	if err != nil || len(xs) != 1 || xs[0].head() != "assert" || len(xs[0].list) != 2 {
		return "", false
	}
	w, ok := weakenSx(xs[0].list[1], 1)
	if !ok {
		return "", false
	}
	if !w.isL && w.atom == "true" {
		return "", false
	}
	return "(assert " + w.String() + ")", true
}

func sxHasQuant(x *sx) bool {
	if !x.isL {
		return false
	}
	if h := x.head(); h == "forall" || h == "exists" {
		return true
	}
	for _, c := range x.list {
		if sxHasQuant(c) {
			return true
		}
	}
	return false
}

func weakenSx(x *sx, pol int) (*sx, bool) {
	if !sxHasQuant(x) {
		return x, true
	}
	h := x.head()
	rebuild := func(pols func(i, n int) int) (*sx, bool) {
		out := &sx{isL: true, list: []*sx{x.list[0]}}
		as := x.args()
		for i, a := range as {
			w, ok := weakenSx(a, pols(i, len(as)))
			if !ok {
				return nil, false
			}
			out.list = append(out.list, w)
		}
		return out, true
	}
	switch h {
	case "forall":
		if pol > 0 {
			if inst, ok := instantiateQuant(x, "and"); ok {
				return weakenSx(inst, pol)
			}
			return &sx{atom: "true"}, true
		}
		return x, pol < 0
	case "exists":
		if pol < 0 {
			if inst, ok := instantiateQuant(x, "or"); ok {
				return weakenSx(inst, pol)
			}
			return &sx{atom: "false"}, true
		}
		return x, pol > 0
	case "not":
		return rebuild(func(i, n int) int { return -pol })
	case "and", "or":
		return rebuild(func(i, n int) int { return pol })
	case "=>":
		return rebuild(func(i, n int) int {
			if i < n-1 {
				return -pol
			}
			return pol
		})
	case "ite":
		return rebuild(func(i, n int) int {
			if i == 0 {
				return 0
			}
			return pol
		})
	case "!":
		return rebuild(func(i, n int) int {
			if i == 0 {
				return pol
			}
			return 0
		})
	}
	return nil, false
}

// race runs the given solvers in parallel on one query and returns the answer of the
// most preferred solver that says sat (or the last non-sat answer).
func (m *rmodel) race(solvers []string, text string, timeoutS int, tag string) solveResult {
	m.rounds++
	file := filepath.Join(m.workdir, fmt.Sprintf("stage%02d_%s.smt2", m.rounds, tag))
	os.WriteFile(file, []byte(text), 0o644)
	ctx, cancel := context.WithTimeout(context.Background(), time.Duration(timeoutS+2)*time.Second)
	defer cancel()
	ch := make(chan solveResult, len(solvers))
	for _, s := range solvers {
		go func(s string) { ch <- runSolver(ctx, s, file, timeoutS, m.cfg.Seed) }(s)
	}
	got := map[string]solveResult{}
	last := solveResult{res: "timeout"}
	pick := func() (solveResult, bool) {
		for _, s := range solvers {
			r, ok := got[s]
			if !ok {
				return solveResult{}, false
			}
			if r.res == "sat" {
				return r, true
			}
		}
		return solveResult{}, false
	}
	for range solvers {
		r := <-ch
		got[r.solver] = r
		if r.res != "timeout" || last.res == "timeout" {
			if r.res != "sat" {
				last = r
			}
		}
		if p, ok := pick(); ok {
			return p
		}
	}
	// every solver answered; take any sat in preference order
	for _, s := range solvers {
		if r := got[s]; r.res == "sat" {
			return r
		}
	}
	return last
}

// flush fetches all pending terms. Returns false if no model could be obtained.
func (m *rmodel) flush() bool {
	if m.failed != "" {
		return false
	}
	if len(m.pending) == 0 {
		return true
	}
	for _, p := range m.pending {
		if p.inv != "" && p.inv != "true" && !m.invSeen[p.inv] {
			m.invSeen[p.inv] = true
			m.invs = append(m.invs, "(assert "+p.inv+")")
		}
	}
	for attempt := 0; attempt < 3; attempt++ {
		res, ok := m.solveRound()
		if !ok {
			if m.failed == "" {
				m.failed = fmt.Sprintf("no model: solver answered %s (%s)", res.res, strings.TrimSpace(trunc(res.out, 200)))
			}
			return false
		}
		vals, err := parseGetValue(res.out, len(m.pending))
		if err != nil {
			m.failed = "cannot parse solver values: " + err.Error()
			return false
		}
		bad := ""
		for i, p := range m.pending {
			if !m.isValue(p, vals[i]) {
				bad = fmt.Sprintf("%s = %s", trunc(p.term, 60), trunc(vals[i].String(), 60))
				break
			}
		}
		if bad != "" {
			// the solver printed an unevaluated term instead of a value: ask another one
			m.logf("round %d: %s did not reduce %s to a value; solver excluded", m.rounds, res.solver, bad)
			if m.banned == nil {
				m.banned = map[string]bool{}
			}
			m.banned[res.solver] = true
			if m.solver != "" {
				m.prefTag = m.variant
			}
			m.solver = ""
			continue
		}
		for i, p := range m.pending {
			m.cache[p.term] = vals[i]
			m.pins = append(m.pins, m.pinLines(p.term, p.ty, vals[i])...)
		}
		m.pending = nil
		return true
	}
	m.failed = "solvers do not reduce the requested terms to values"
	return false
}

// isValue: v is a concrete value of the expected shape (not an unevaluated term).
func (m *rmodel) isValue(p pendTerm, v *sx) bool {
	scalar := func(x *sx) bool {
		if _, ok := sxRat(x); ok {
			return true
		}
		_, ok := sxBool(x)
		return ok
	}
	if p.ty == nil {
		return scalar(v)
	}
	var check func(ty types.Type, x *sx) bool
	check = func(ty types.Type, x *sx) bool {
		switch t := ty.Underlying().(type) {
		case *types.Basic:
			if t.Info()&types.IsString != 0 {
				return true
			}
			return scalar(x)
		case *types.Pointer, *types.Map, *types.Chan, *types.Signature, *types.Interface:
			return scalar(x)
		case *types.Slice:
			if x.head() != "mkSlice" || len(x.args()) != 4 {
				return false
			}
			for _, a := range x.args() {
				if !scalar(a) {
					return false
				}
			}
			return true
		case *types.Struct:
			if t.NumFields() == 0 {
				return true
			}
			if x.head() != "mk_"+m.u.em.sortOf(ty) || len(x.args()) != t.NumFields() {
				return false
			}
			for i := 0; i < t.NumFields(); i++ {
				if !check(t.Field(i).Type(), x.args()[i]) {
					return false
				}
			}
			return true
		}
		return true
	}
	return check(p.ty, v)
}

// solveRound runs one solver round for the pending terms.
func (m *rmodel) solveRound() (res solveResult, ok bool) {
	var avail []string
	for _, s := range replaySolverPref {
		if solverAvailable(s) && !m.banned[s] {
			avail = append(avail, s)
		}
	}
	if len(avail) == 0 {
		m.failed = "no solver available"
		return res, false
	}
	if m.solver == "" {
		// first round: choose variant and solver
		niceT := m.cfg.TimeoutS
		if niceT > 5 {
			niceT = 5
		}
		type variant struct {
			nice, noquant bool
			tmo           int
			tag           string
		}
		// A model of a weakened (quantifier-free) query is only a candidate input, but so is
		// every model here: the run of the real code decides. Cheap variants come first.
		vs := []variant{{true, false, niceT, "nice"}, {true, true, niceT, "nice_noquant"}, {false, false, m.cfg.TimeoutS, "full"}, {false, true, m.cfg.TimeoutS, "noquant"}}
		if m.quick {
			vs = []variant{{true, true, niceT, "nice_noquant"}, {true, false, niceT, "nice"}, {false, true, m.cfg.TimeoutS, "noquant"}}
		}
		for i, v := range vs {
			if v.tag == m.prefTag && i > 0 {
				vs = append(append([]variant{v}, vs[:i]...), vs[i+1:]...)
				break
			}
		}
		for _, v := range vs {
			if v.nice && len(m.nice) == 0 || m.exclude[v.tag] {
				continue
			}
			res = m.race(avail, m.queryText(m.pending, v.nice, v.noquant), v.tmo, v.tag)
			m.logf("round %d (%s): %s %s %dms", m.rounds, v.tag, res.res, res.solver, res.ms)
			if res.res == "sat" {
				m.solver, m.useNice, m.noquant, m.variant = res.solver, v.nice, v.noquant, v.tag
				return res, true
			}
			if res.res == "unsat" && !v.nice {
				break // no model of the (weakened) query: stronger variants have none either
			}
		}
		return res, false
	}
	res = m.race([]string{m.solver}, m.queryText(m.pending, m.useNice, m.noquant), m.cfg.TimeoutS, "more")
	m.logf("round %d: %s %s %dms", m.rounds, res.res, res.solver, res.ms)
	if res.res == "sat" {
		return res, true
	}
	if !m.noquant {
		// the pinned query got too hard with quantifiers: continue on the weakened query
		res = m.race(avail, m.queryText(m.pending, m.useNice, true), m.cfg.TimeoutS, "more_noquant")
		m.logf("round %d (noquant fallback): %s %s %dms", m.rounds, res.res, res.solver, res.ms)
		if res.res == "sat" {
			m.noquant, m.solver = true, res.solver
			return res, true
		}
	}
	return res, false
}

// parseGetValue extracts the n values of a "sat ((t v) ...)" answer, by position.
func parseGetValue(out string, n int) ([]*sx, error) {
	rest := out
	if i := strings.Index(out, "\n"); i >= 0 {
		rest = out[i+1:]
	} else {
		rest = ""
	}
	exprs, err := parseSexprs(rest)
	if err != nil {
		return nil, err
	}
	for _, e := range exprs {
		if e.head() == "error" {
			return nil, fmt.Errorf("solver error: %s", trunc(e.String(), 300))
		}
	}
	for _, e := range exprs {
		if !e.isL || len(e.list) != n {
			continue
		}
		vals := make([]*sx, n)
		ok := true
		for i, p := range e.list {
			if !p.isL || len(p.list) != 2 {
				ok = false
				break
			}
			vals[i] = p.list[1]
		}
		if ok {
			return vals, nil
		}
	}
	return nil, fmt.Errorf("no (get-value) answer with %d entries in solver output: %s", n, trunc(rest, 300))
}

// pinLines: assertions fixing term to the obtained value (Str components and array
// valued components cannot be pinned textually and are skipped).
func (m *rmodel) pinLines(term string, ty types.Type, v *sx) []string {
	if v == nil {
		return nil
	}
	scalar := func() []string {
		if r, ok := sxRat(v); ok {
			if r.IsInt() {
				if ty != nil && isFloat(ty) {
					return []string{fmt.Sprintf("(assert (= %s %s))", term, smtReal(r.Num().String(), "1"))}
				}
				return []string{fmt.Sprintf("(assert (= %s %s))", term, smtInt(r.Num()))}
			}
			return []string{fmt.Sprintf("(assert (= %s %s))", term, smtReal(r.Num().String(), r.Denom().String()))}
		}
		if b, ok := sxBool(v); ok {
			if b {
				return []string{fmt.Sprintf("(assert %s)", term)}
			}
			return []string{fmt.Sprintf("(assert (not %s))", term)}
		}
		return nil
	}
	if ty == nil {
		return scalar()
	}
	switch t := ty.Underlying().(type) {
	case *types.Basic:
		if t.Info()&types.IsString != 0 {
			return nil
		}
		return scalar()
	case *types.Pointer, *types.Map, *types.Chan, *types.Signature, *types.Interface:
		return scalar()
	case *types.Slice:
		if v.head() == "mkSlice" && len(v.args()) == 4 {
			var parts []string
			for _, a := range v.args() {
				iv, ok := sxInt(a)
				if !ok {
					return nil
				}
				parts = append(parts, smtInt(iv))
			}
			return []string{fmt.Sprintf("(assert (= %s (mkSlice %s)))", term, strings.Join(parts, " "))}
		}
	case *types.Struct:
		sn := m.u.em.sortOf(ty)
		if v.head() != "mk_"+sn || len(v.args()) != t.NumFields() {
			return nil
		}
		var out []string
		for i := 0; i < t.NumFields(); i++ {
			f := t.Field(i)
			out = append(out, m.pinLines(fmt.Sprintf("(%s %s)", m.u.em.fieldSel(sn, f.Name(), i), term), f.Type(), v.args()[i])...)
		}
		return out
	}
	return nil
}

func smtReal(num, den string) string {
	neg := strings.HasPrefix(num, "-")
	num = strings.TrimPrefix(num, "-")
	t := num + ".0"
	if den != "1" {
		t = fmt.Sprintf("(/ %s.0 %s.0)", num, den)
	}
	if neg {
		t = "(- " + t + ")"
	}
	return t
}

const weakenInstances = 8

// instantiateQuant replaces a quantifier over an integer range, (Q ((v Int)) body) with
// a lower bound (<= LO v) in its guard, by the body instantiated at LO, LO+1, ...
// (a finite instantiation: a consequence of forall / a sufficient condition of exists).
func instantiateQuant(x *sx, conn string) (*sx, bool) {
	if len(x.list) != 3 || !x.list[1].isL || len(x.list[1].list) != 1 {
		return nil, false
	}
	b := x.list[1].list[0]
	if !b.isL || len(b.list) != 2 || b.list[0].isL || b.list[1].String() != "Int" {
		return nil, false
	}
	v := b.list[0].atom
	body := x.list[2]
	if body.head() == "!" && len(body.list) >= 2 {
		body = body.list[1]
	}
	var guard *sx
	switch {
	case conn == "and" && body.head() == "=>" && len(body.list) == 3:
		guard = body.list[1]
	case conn == "or" && body.head() == "and":
		guard = body
	default:
		return nil, false
	}
	var lo *sx
	var find func(g *sx)
	find = func(g *sx) {
		if lo != nil || !g.isL {
			return
		}
		if g.head() == "and" {
			for _, c := range g.args() {
				find(c)
			}
			return
		}
		if g.head() == "<=" && len(g.list) == 3 && !g.list[2].isL && g.list[2].atom == v && !sxMentions(g.list[1], v) {
			lo = g.list[1]
		}
	}
	find(guard)
	if lo == nil {
		return nil, false
	}
	out := &sx{isL: true, list: []*sx{{atom: conn}}}
	for k := 0; k < weakenInstances; k++ {
		at := &sx{isL: true, list: []*sx{{atom: "+"}, lo, {atom: fmt.Sprint(k)}}}
		out.list = append(out.list, sxSubst(body, v, at))
	}
	return out, true
}

func sxMentions(x *sx, v string) bool {
	if !x.isL {
		return x.atom == v
	}
	for _, c := range x.list {
		if sxMentions(c, v) {
			return true
		}
	}
	return false
}

func sxSubst(x *sx, v string, by *sx) *sx {
	if !x.isL {
		if x.atom == v {
			return by
		}
		return x
	}
	if !sxMentions(x, v) {
		return x
	}
	out := &sx{isL: true, list: make([]*sx, len(x.list))}
	for i, c := range x.list {
		out.list[i] = sxSubst(c, v, by)
	}
	return out
}
