package main

import (
	"fmt"
	"go/ast"
	"go/token"
	"go/types"
	"os"
	"sort"
	"strings"

	"golang.org/x/tools/go/ast/astutil"
	"golang.org/x/tools/go/packages"
	"golang.org/x/tools/go/ssa"
	"golang.org/x/tools/go/ssa/ssautil"
)

const repoMod = "github.com/Dash-Industry-Forum/livesim2"

type Ctx struct {
	sharedParams map[*ssa.Parameter]string // parameters that receive shared state at some call site (sharedflow)
	fset       *token.FileSet
	prog       *ssa.Program
	pkgs       map[string]*packages.Package // by path (all, incl deps)
	roots      []*packages.Package
	allTypes   []*types.Package
	contracts  map[string]map[string]*Contract
	externs    map[string]*Contract
	uninterp   map[string]bool
	recursive  map[string]bool
	guards     map[string][]*GuardDecl
	shared     map[string]*SharedDecl
	ctors      map[string]bool
	ghostFiles map[string]bool
	decls      map[types.Object]*ast.FuncDecl
	declPkg    map[types.Object]*packages.Package
	files      map[string]*ast.File
	sentinels  map[string]int
	storesTo   map[*ssa.Global]bool // globals stored to outside init
	frozenMemo map[*ssa.Global][]string
	hwMemo     map[*ssa.Function]map[string]types.Type
	gwMemo     map[*ssa.Function]map[*ssa.Global]bool
	funcsByKey map[string]*ssa.Function
	repoDir    string
}

func loadCtx(repoDir string, patterns []string) (*Ctx, error) {
	cfg := &packages.Config{Mode: packages.LoadAllSyntax, Dir: repoDir, BuildFlags: []string{"-tags=verif"},
		Env: append(os.Environ(), "GOFLAGS=-mod=mod", "GOPROXY=off", "GOSUMDB=off", "GOTOOLCHAIN=local")}
	pkgs, err := packages.Load(cfg, patterns...)
	if err != nil {
		return nil, err
	}
	c := &Ctx{pkgs: map[string]*packages.Package{}, contracts: map[string]map[string]*Contract{}, externs: map[string]*Contract{},
		uninterp: map[string]bool{}, recursive: map[string]bool{}, guards: map[string][]*GuardDecl{}, shared: map[string]*SharedDecl{}, ctors: map[string]bool{}, ghostFiles: map[string]bool{},
		decls: map[types.Object]*ast.FuncDecl{}, declPkg: map[types.Object]*packages.Package{}, files: map[string]*ast.File{},
		sentinels: map[string]int{}, hwMemo: map[*ssa.Function]map[string]types.Type{}, funcsByKey: map[string]*ssa.Function{}, repoDir: repoDir}
	c.roots = pkgs
	var errs []string
	packages.Visit(pkgs, nil, func(p *packages.Package) {
		c.pkgs[p.PkgPath] = p
		if p.Types != nil {
			c.allTypes = append(c.allTypes, p.Types)
		}
		if strings.HasPrefix(p.PkgPath, repoMod) {
			for _, e := range p.Errors {
				errs = append(errs, e.Error())
			}
		}
		if p.Fset != nil {
			c.fset = p.Fset
		}
		for _, f := range p.Syntax {
			c.files[p.Fset.Position(f.Pos()).Filename] = f
			for _, d := range f.Decls {
				if fd, ok := d.(*ast.FuncDecl); ok && p.TypesInfo != nil {
					if obj := p.TypesInfo.Defs[fd.Name]; obj != nil {
						c.decls[obj] = fd
						c.declPkg[obj] = p
					}
				}
			}
		}
	})
	if len(errs) > 0 {
		return nil, fmt.Errorf("package errors:\n%s", strings.Join(errs, "\n"))
	}
	sort.Slice(c.allTypes, func(i, j int) bool { return c.allTypes[i].Path() < c.allTypes[j].Path() })
	prog, _ := ssautil.AllPackages(pkgs, ssa.NaiveForm|ssa.GlobalDebug|ssa.InstantiateGenerics)
	prog.Build()
	c.prog = prog
	for _, p := range c.pkgs {
		if strings.HasPrefix(p.PkgPath, repoMod) {
			if err := c.parseContracts(p); err != nil {
				return nil, err
			}
		}
	}
	// index functions and global stores
	c.storesTo = map[*ssa.Global]bool{}
	allFns := ssautil.AllFunctions(prog)
	for _, sp := range prog.AllPackages() {
		if !strings.HasPrefix(sp.Pkg.Path(), repoMod) {
			continue
		}
		for _, m := range sp.Members {
			tn, ok := m.(*ssa.Type)
			if !ok {
				continue
			}
			for _, t := range []types.Type{tn.Type(), types.NewPointer(tn.Type())} {
				ms := prog.MethodSets.MethodSet(t)
				for i := 0; i < ms.Len(); i++ {
					if fn := prog.MethodValue(ms.At(i)); fn != nil && fn.Synthetic == "" {
						allFns[fn] = true
					}
				}
			}
		}
	}
	for fn := range allFns {
		if fn.Pkg == nil || !strings.HasPrefix(fn.Pkg.Pkg.Path(), repoMod) {
			continue
		}
		c.funcsByKey[fn.Pkg.Pkg.Path()+"::"+c.localKey(fn)] = fn
		if fn.Name() == "init" || strings.HasPrefix(fn.Name(), "init#") {
			continue
		}
		for _, b := range fn.Blocks {
			for _, ins := range b.Instrs {
				if s, ok := ins.(*ssa.Store); ok {
					if g, ok := s.Addr.(*ssa.Global); ok {
						c.storesTo[g] = true
					}
				}
			}
		}
	}
	return c, nil
}

func (c *Ctx) localKey(fn *ssa.Function) string {
	if fn.Parent() != nil {
		// a closure assigned to a named local variable is keyed by that name (stable under
		// insertion of other closures), otherwise by its ordinal
		if n := closureVarName(fn); n != "" {
			return c.localKey(fn.Parent()) + "$" + n
		}
		return c.localKey(fn.Parent()) + strings.TrimPrefix(fn.Name(), fn.Parent().Name())
	}
	if recv := fn.Signature.Recv(); recv != nil {
		t := recv.Type()
		if pt, ok := t.(*types.Pointer); ok {
			return "(*" + typeShort(pt.Elem()) + ")." + fn.Name()
		}
		return typeShort(t) + "." + fn.Name()
	}
	return fn.Name()
}

func typeShort(t types.Type) string {
	if n, ok := t.(*types.Named); ok {
		return n.Obj().Name()
	}
	return types.TypeString(t, func(*types.Package) string { return "" })
}

func pkgShort(path string) string {
	switch {
	case strings.HasSuffix(path, "cmd/livesim2/app"):
		return "livesim2"
	case strings.HasSuffix(path, "cmd/cmaf-ingest-receiver/app"):
		return "receiver"
	}
	return path[strings.LastIndex(path, "/")+1:]
}

func (c *Ctx) funcKey(fn *ssa.Function) string {
	if fn.Pkg == nil {
		if fn.Parent() != nil {
			return c.funcKey(fn.Parent()) + "$"
		}
		return fn.String()
	}
	return pkgShort(fn.Pkg.Pkg.Path()) + "." + c.localKey(fn)
}

func (c *Ctx) fullKey(fn *ssa.Function) string { return fn.String() }

func (c *Ctx) ifaceKey(cc *ssa.CallCommon) string {
	return types.TypeString(cc.Value.Type(), nil) + "." + cc.Method.Name()
}

func (c *Ctx) contractFor(fn *ssa.Function) *Contract {
	if fn == nil || fn.Pkg == nil {
		return nil
	}
	m := c.contracts[fn.Pkg.Pkg.Path()]
	if m == nil {
		return nil
	}
	return m[c.localKey(fn)]
}

func (c *Ctx) inRepo(fn *ssa.Function) bool {
	if fn.Pkg == nil && fn.Origin() != nil && fn.Origin() != fn {
		return c.inRepo(fn.Origin())
	}
	p := fn.Pkg
	if p == nil && fn.Parent() != nil {
		return c.inRepo(fn.Parent())
	}
	return p != nil && strings.HasPrefix(p.Pkg.Path(), repoMod)
}

func (c *Ctx) isGhostFile(fn *ssa.Function) bool {
	if !fn.Pos().IsValid() {
		return false
	}
	return c.ghostFiles[c.fset.Position(fn.Pos()).Filename]
}

func (c *Ctx) pkgOf(fn *ssa.Function) *packages.Package {
	for fn.Pkg == nil && fn.Parent() != nil {
		fn = fn.Parent()
	}
	if fn.Pkg == nil {
		return nil
	}
	return c.pkgs[fn.Pkg.Pkg.Path()]
}

func (c *Ctx) funcDecl(o *types.Func) (*ast.FuncDecl, *packages.Package) {
	if d, ok := c.decls[o]; ok {
		return d, c.declPkg[o]
	}
	if org := o.Origin(); org != o {
		if d, ok := c.decls[org]; ok {
			return d, c.declPkg[org]
		}
	}
	return nil, nil
}

func (c *Ctx) globalOf(v *types.Var) *ssa.Global {
	if v.Pkg() == nil {
		return nil
	}
	p := c.prog.Package(v.Pkg())
	if p == nil {
		return nil
	}
	return p.Var(v.Name())
}

func (c *Ctx) isSentinelError(g *ssa.Global) bool {
	t := g.Type().(*types.Pointer).Elem()
	if _, ok := t.Underlying().(*types.Interface); !ok {
		return false
	}
	if g.Pkg == nil || !strings.HasPrefix(g.Pkg.Pkg.Path(), repoMod) {
		// well-known library sentinels
		switch g.Pkg.Pkg.Path() + "." + g.Name() {
		case "io.EOF", "io.ErrUnexpectedEOF":
			return true
		}
		return false
	}
	return !c.storesTo[g]
}

func (c *Ctx) sentinelIndex(g *ssa.Global) int {
	k := g.Pkg.Pkg.Path() + "." + g.Name()
	if v, ok := c.sentinels[k]; ok {
		return v
	}
	v := len(c.sentinels) + 1
	c.sentinels[k] = v
	return v
}

func (c *Ctx) guardDecls(t types.Type) []*GuardDecl {
	n, ok := t.(*types.Named)
	if !ok || n.Obj().Pkg() == nil {
		return nil
	}
	var out []*GuardDecl
	for _, g := range c.guards[n.Obj().Pkg().Path()] {
		if g.Type == n.Obj().Name() {
			out = append(out, g)
		}
	}
	return out
}

func (c *Ctx) guardOf(t types.Type, field string) string {
	for _, g := range c.guardDecls(t) {
		if g.Fields[field] {
			return g.Mutex
		}
	}
	return ""
}

// guardOwner: fnName runs on the goroutine that owns all writes of this guarded field.
func (c *Ctx) guardOwner(t types.Type, field, fnName string) bool {
	for _, g := range c.guardDecls(t) {
		if g.Fields[field] && g.Owners[fnName] {
			return true
		}
	}
	return false
}

func (c *Ctx) guardedFields(t types.Type, mutex string) map[string]bool {
	for _, g := range c.guardDecls(t) {
		if g.Mutex == mutex {
			return g.Fields
		}
	}
	return nil
}

func (c *Ctx) isCtor(fn *ssa.Function) bool {
	if fn.Pkg == nil {
		return false
	}
	return c.ctors[fn.Pkg.Pkg.Path()+"."+c.localKey(fn)]
}

// nodeTextAt returns the source text of the innermost expression at pos.
func (c *Ctx) nodeTextAt(pos token.Pos) string {
	p := c.fset.Position(pos)
	f := c.files[p.Filename]
	if f == nil {
		return ""
	}
	path, _ := astutil.PathEnclosingInterval(f, pos, pos+1)
	for i, n := range path {
		switch x := n.(type) {
		case *ast.Ident:
			if i+1 < len(path) {
				if se, ok := path[i+1].(*ast.SelectorExpr); ok && se.Sel == x {
					return compact(types.ExprString(se))
				}
			}
			return x.Name
		case ast.Expr:
			return compact(types.ExprString(x))
		case *ast.AssignStmt:
			if len(x.Lhs) == 1 {
				return compact(types.ExprString(x.Lhs[0]) + " " + x.Tok.String())
			}
			return ""
		case *ast.IncDecStmt:
			return compact(types.ExprString(x.X) + x.Tok.String())
		case ast.Stmt:
			return ""
		}
	}
	return ""
}

// heapWrites: which heap maps may a call to fn modify (transitively).
func (c *Ctx) heapWrites(u *Unit, fn *ssa.Function, depth int) (map[string]types.Type, bool) {
	if m, ok := c.hwMemo[fn]; ok {
		_, all := m["*"]
		return m, all
	}
	out := map[string]types.Type{}
	c.hwMemo[fn] = out
	if con := c.contractFor(fn); con != nil && !con.Inline {
		c.assignHeaps(u, con, fn, out)
		return out, con.AssignsAll
	}
	if con := c.externs[c.fullKey(fn)]; con != nil {
		c.assignHeaps(u, con, fn, out)
		return out, con.AssignsAll
	}
	if fn.Blocks == nil || !c.inRepo(fn) || depth > 6 {
		return out, false
	}
	cells := map[*cellKey]bool{}
	globals := map[*ssa.Global]bool{}
	all := false
	for _, b := range fn.Blocks {
		for _, ins := range b.Instrs {
			switch x := ins.(type) {
			case *ssa.Store:
				u.writeTarget(nil, x.Addr, cells, out, globals)
			case *ssa.MapUpdate:
				mt := x.Map.Type().Underlying().(*types.Map)
				out[u.mapHeapName(mt)] = mt
				out["V"+u.mapHeapName(mt)] = mt
			case ssa.CallInstruction:
				cc := x.Common()
				if bi, ok := cc.Value.(*ssa.Builtin); ok {
					switch bi.Name() {
					case "copy", "append":
						if sl, ok := cc.Args[0].Type().Underlying().(*types.Slice); ok {
							out[u.em.elemHeapName(sl.Elem())] = sl.Elem()
						}
					case "delete":
						mt := cc.Args[0].Type().Underlying().(*types.Map)
						out[u.mapHeapName(mt)] = mt
					}
					continue
				}
				if callee := cc.StaticCallee(); callee != nil {
					hs, a := c.heapWrites(u, callee, depth+1)
					for k, t := range hs {
						out[k] = t
					}
					all = all || a
				}
			}
		}
	}
	if all {
		out["*"] = nil
	}
	return out, all
}

// globalWrites: the package-level variables fn may assign - those named by the assigns clause of
// its contract, or (no contract) those stored to by its body and, transitively, its callees.
func (c *Ctx) globalWrites(u *Unit, fn *ssa.Function, depth int) map[*ssa.Global]bool {
	if c.gwMemo == nil {
		c.gwMemo = map[*ssa.Function]map[*ssa.Global]bool{}
	}
	if m, ok := c.gwMemo[fn]; ok {
		return m
	}
	out := map[*ssa.Global]bool{}
	c.gwMemo[fn] = out
	if con := c.contractFor(fn); con != nil && !con.Inline {
		c.assignGlobals(con, fn, out)
		return out
	}
	if con := c.externs[c.fullKey(fn)]; con != nil {
		c.assignGlobals(con, fn, out)
		return out
	}
	if fn.Blocks == nil || !c.inRepo(fn) || depth > 6 {
		return out
	}
	cells := map[*cellKey]bool{}
	heaps := map[string]types.Type{}
	for _, b := range fn.Blocks {
		for _, ins := range b.Instrs {
			switch x := ins.(type) {
			case *ssa.Store:
				u.writeTarget(nil, x.Addr, cells, heaps, out)
			case ssa.CallInstruction:
				cc := x.Common()
				if cc.IsInvoke() {
					if con := c.externs[c.ifaceKey(cc)]; con != nil {
						c.assignGlobals(con, nil, out)
					}
					continue
				}
				if callee := cc.StaticCallee(); callee != nil {
					for g := range c.globalWrites(u, callee, depth+1) {
						out[g] = true
					}
				} else if fk := fieldFuncKey(cc.Value); fk != "" && c.externs[fk] != nil {
					c.assignGlobals(c.externs[fk], nil, out)
				}
			}
		}
	}
	return out
}

// assignGlobals: the package-level variables at the root of a contract's assigns clause.
func (c *Ctx) assignGlobals(con *Contract, fn *ssa.Function, out map[*ssa.Global]bool) {
	if con.Pkg == nil {
		return
	}
	params := map[string]bool{}
	for _, n := range con.paramNames(fn) {
		params[n] = true
	}
	for _, n := range con.resultNames(fn) {
		params[n] = true
	}
	for _, a := range con.Assigns {
		x := a
	root:
		for {
			switch n := x.(type) {
			case *ast.ParenExpr:
				x = n.X
			case *ast.SelectorExpr:
				x = n.X
			case *ast.IndexExpr:
				x = n.X
			case *ast.StarExpr:
				x = n.X
			case *ast.SliceExpr:
				x = n.X
			default:
				break root
			}
		}
		id, ok := x.(*ast.Ident)
		if !ok || params[id.Name] {
			continue
		}
		if o, ok := con.Pkg.Types.Scope().Lookup(id.Name).(*types.Var); ok {
			if g := c.globalOf(o); g != nil {
				out[g] = true
			}
		}
	}
}

// assignHeaps computes the heap maps named by a contract's assigns clause (statically typed).
func (c *Ctx) assignHeaps(u *Unit, con *Contract, fn *ssa.Function, out map[string]types.Type) {
	if con.AssignsAll {
		out["*"] = nil
		return
	}
	env := map[string]types.Type{}
	if fn != nil {
		for _, p := range fn.Params {
			env[p.Name()] = p.Type()
		}
	}
	var typeOf func(x ast.Expr) types.Type
	typeOf = func(x ast.Expr) types.Type {
		switch n := x.(type) {
		case *ast.Ident:
			if t, ok := env[n.Name]; ok {
				return t
			}
			if con.Pkg != nil {
				if o := con.Pkg.Types.Scope().Lookup(n.Name); o != nil {
					return o.Type()
				}
			}
		case *ast.ParenExpr:
			return typeOf(n.X)
		case *ast.StarExpr:
			if t := typeOf(n.X); t != nil {
				if pt, ok := t.Underlying().(*types.Pointer); ok {
					return pt.Elem()
				}
			}
		case *ast.SelectorExpr:
			if t := typeOf(n.X); t != nil {
				var pk *types.Package
				if con.Pkg != nil {
					pk = con.Pkg.Types
				}
				obj, _, _ := types.LookupFieldOrMethod(t, true, pk, n.Sel.Name)
				if obj != nil {
					return obj.Type()
				}
			}
		case *ast.IndexExpr:
			if t := typeOf(n.X); t != nil {
				switch tt := t.Underlying().(type) {
				case *types.Slice:
					return tt.Elem()
				case *types.Array:
					return tt.Elem()
				case *types.Map:
					return tt.Elem()
				}
			}
		case *ast.CallExpr:
			// method call returning a pointer etc: not supported statically
		}
		return nil
	}
	for _, a := range con.Assigns {
		switch n := a.(type) {
		case *ast.SelectorExpr:
			// find innermost pointer base
			var base ast.Expr = n.X
			for {
				bt := typeOf(base)
				if bt == nil {
					out["*"] = nil
					break
				}
				if pt, ok := bt.Underlying().(*types.Pointer); ok {
					out[u.em.heapName(pt.Elem())] = pt.Elem()
					break
				}
				if se, ok := base.(*ast.SelectorExpr); ok {
					base = se.X
					continue
				}
				if ie, ok := base.(*ast.IndexExpr); ok {
					if st := typeOf(ie.X); st != nil {
						if sl, ok := st.Underlying().(*types.Slice); ok {
							out[u.em.elemHeapName(sl.Elem())] = sl.Elem()
						}
					}
					break
				}
				out["*"] = nil
				break
			}
		case *ast.StarExpr:
			if t := typeOf(n.X); t != nil {
				if pt, ok := t.Underlying().(*types.Pointer); ok {
					out[u.em.heapName(pt.Elem())] = pt.Elem()
					continue
				}
			}
			out["*"] = nil
		case *ast.IndexExpr:
			if t := typeOf(n.X); t != nil {
				if sl, ok := t.Underlying().(*types.Slice); ok {
					out[u.em.elemHeapName(sl.Elem())] = sl.Elem()
					continue
				}
				if mt, ok := t.Underlying().(*types.Map); ok {
					out[u.mapHeapName(mt)] = mt
					out["V"+u.mapHeapName(mt)] = mt
					continue
				}
			}
			out["*"] = nil
		default:
			out["*"] = nil
		}
	}
}

// findFunc resolves "pkgshort.key" or "pkgpath::key" to a function.
func (c *Ctx) findFunc(name string) *ssa.Function {
	var cands []*ssa.Function
	for k, fn := range c.funcsByKey {
		parts := strings.SplitN(k, "::", 2)
		if name == k || name == pkgShort(parts[0])+"."+parts[1] {
			cands = append(cands, fn)
		}
	}
	if len(cands) == 1 {
		return cands[0]
	}
	return nil
}

func (c *Ctx) guardDecl(t types.Type, mutex string) *GuardDecl {
	for _, g := range c.guardDecls(t) {
		if g.Mutex == mutex {
			return g
		}
	}
	return nil
}

// frozenGlobal reports whether g is a package-level slice variable of integer elements
// that (a) is initialised by a composite literal of constants, (b) is never stored to
// outside init, and (c) whose value is only ever indexed for reading (or measured with
// len/cap) anywhere in the repository packages - so its contents are those constants in
// every execution.  Returns the constants as SMT literals.
func (c *Ctx) frozenGlobal(g *ssa.Global) ([]string, bool) {
	if c.frozenMemo == nil {
		c.frozenMemo = map[*ssa.Global][]string{}
	}
	if v, ok := c.frozenMemo[g]; ok {
		return v, v != nil
	}
	c.frozenMemo[g] = nil
	if g.Pkg == nil || !strings.HasPrefix(g.Pkg.Pkg.Path(), repoMod) || c.storesTo[g] {
		return nil, false
	}
	sl, ok := g.Type().(*types.Pointer).Elem().Underlying().(*types.Slice)
	if !ok {
		return nil, false
	}
	if b, ok := sl.Elem().Underlying().(*types.Basic); !ok || b.Info()&types.IsInteger == 0 {
		return nil, false
	}
	pkg := c.pkgs[g.Pkg.Pkg.Path()]
	if pkg == nil {
		return nil, false
	}
	var consts []string
	found := false
	for _, file := range pkg.Syntax {
		for _, d := range file.Decls {
			gd, ok := d.(*ast.GenDecl)
			if !ok || gd.Tok != token.VAR {
				continue
			}
			for _, sp := range gd.Specs {
				vs := sp.(*ast.ValueSpec)
				for i, nm := range vs.Names {
					if nm.Name != g.Name() || len(vs.Values) != len(vs.Names) {
						continue
					}
					cl, ok := vs.Values[i].(*ast.CompositeLit)
					if !ok {
						return nil, false
					}
					for _, el := range cl.Elts {
						tv, ok := pkg.TypesInfo.Types[el]
						if !ok || tv.Value == nil {
							return nil, false
						}
						if _, isKV := el.(*ast.KeyValueExpr); isKV {
							return nil, false
						}
						consts = append(consts, intLit(tv.Value))
					}
					found = true
				}
			}
		}
	}
	if !found {
		return nil, false
	}
	// every use in the repository: load, then only IndexAddr->load or len/cap
	for _, fn := range c.funcsByKey {
		var visit func(f *ssa.Function) bool
		visit = func(f *ssa.Function) bool {
			for _, b := range f.Blocks {
				for _, ins := range b.Instrs {
					for _, op := range ins.Operands(nil) {
						if *op != ssa.Value(g) {
							continue
						}
						ld, ok := ins.(*ssa.UnOp)
						if !ok || ld.Op != token.MUL {
							if _, isStore := ins.(*ssa.Store); isStore && (f.Name() == "init" || strings.HasPrefix(f.Name(), "init#")) {
								continue
							}
							if _, isDbg := ins.(*ssa.DebugRef); isDbg {
								continue
							}
							return false
						}
						for _, r := range *ld.Referrers() {
							switch rr := r.(type) {
							case *ssa.DebugRef:
							case *ssa.IndexAddr:
								if rr.X != ssa.Value(ld) {
									return false
								}
								for _, r2 := range *rr.Referrers() {
									if l2, ok := r2.(*ssa.UnOp); !ok || l2.Op != token.MUL {
										if _, isDbg := r2.(*ssa.DebugRef); !isDbg {
											return false
										}
									}
								}
							case *ssa.Call:
								if callee := rr.Call.StaticCallee(); callee != nil && readOnlyBytesFuncs[callee.String()] {
									continue
								}
								bi, ok := rr.Call.Value.(*ssa.Builtin)
								if !ok || (bi.Name() != "len" && bi.Name() != "cap") {
									return false
								}
							default:
								return false
							}
						}
					}
				}
			}
			for _, an := range f.AnonFuncs {
				if !visit(an) {
					return false
				}
			}
			return true
		}
		if fn.Parent() == nil && !visit(fn) {
			return nil, false
		}
	}
	// the package initialiser is not in funcsByKey when synthetic: check it stores only once
	c.frozenMemo[g] = consts
	return consts, true
}

// callExprAt finds the call expression whose opening parenthesis is at pos.
func (c *Ctx) callExprAt(pos token.Pos) *ast.CallExpr {
	p := c.fset.Position(pos)
	f := c.files[p.Filename]
	if f == nil {
		return nil
	}
	path, _ := astutil.PathEnclosingInterval(f, pos, pos+1)
	for _, n := range path {
		if ce, ok := n.(*ast.CallExpr); ok && ce.Lparen == pos {
			return ce
		}
	}
	return nil
}

// library functions that only read their slice arguments and do not retain them
var readOnlyBytesFuncs = map[string]bool{
	"bytes.HasPrefix": true, "bytes.HasSuffix": true, "bytes.Equal": true, "bytes.Compare": true,
	"bytes.Contains": true, "bytes.Index": true,
}

// closureVarName: the local variable a closure value is directly stored into (x := func...).
func closureVarName(fn *ssa.Function) string {
	p := fn.Parent()
	if p == nil {
		return ""
	}
	name := ""
	for _, b := range p.Blocks {
		for _, ins := range b.Instrs {
			var v ssa.Value
			switch x := ins.(type) {
			case *ssa.MakeClosure:
				if x.Fn == fn {
					v = x
				}
			}
			if v == nil {
				continue
			}
			for _, r := range *v.Referrers() {
				if st, ok := r.(*ssa.Store); ok {
					if al, ok := st.Addr.(*ssa.Alloc); ok && al.Comment != "" {
						if name != "" && name != al.Comment {
							return ""
						}
						name = al.Comment
					}
				}
			}
		}
	}
	// the name must be unique among the parent's closures
	if name != "" {
		for _, an := range p.AnonFuncs {
			if an != fn && closureVarNameNoCheck(an) == name {
				return ""
			}
		}
	}
	return name
}

func closureVarNameNoCheck(fn *ssa.Function) string {
	p := fn.Parent()
	for _, b := range p.Blocks {
		for _, ins := range b.Instrs {
			if x, ok := ins.(*ssa.MakeClosure); ok && x.Fn == fn {
				for _, r := range *x.Referrers() {
					if st, ok := r.(*ssa.Store); ok {
						if al, ok := st.Addr.(*ssa.Alloc); ok && al.Comment != "" {
							return al.Comment
						}
					}
				}
			}
		}
	}
	return ""
}

// assignTextAt: "lhs op" of the assignment / inc-dec statement enclosing pos (e.g. "wt.nowWraps +=").
func (c *Ctx) assignTextAt(pos token.Pos) string {
	p := c.fset.Position(pos)
	f := c.files[p.Filename]
	if f == nil {
		return ""
	}
	path, _ := astutil.PathEnclosingInterval(f, pos, pos+1)
	for _, n := range path {
		switch x := n.(type) {
		case *ast.AssignStmt:
			for _, l := range x.Lhs {
				if l.Pos() <= pos && pos <= l.End() || len(x.Lhs) == 1 {
					return compact(types.ExprString(l) + " " + x.Tok.String())
				}
			}
		case *ast.IncDecStmt:
			return compact(types.ExprString(x.X) + x.Tok.String())
		case ast.Stmt:
			return ""
		}
	}
	return ""
}
