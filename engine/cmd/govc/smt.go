package main

// SMT layer: Go type -> SMT sort mapping, datatype declarations, emitter.

import (
	"fmt"
	"go/types"
	"sort"
	"strings"
)

// Emitter accumulates the SMT text of one verification unit (one function under
// contract). preamble holds sort/function declarations (order independent of the
// program order), lines holds declare-const/assert in program order. An obligation
// is checked against preamble + lines[:at].
type Emitter struct {
	defs map[string]string // bodies of define-fun'd intermediate values
	zeroArrs  map[string]bool
	preamble  []string
	preSeen   map[string]bool
	lines     []string
	n         int
	structs   map[string]bool // declared datatypes
	heapDecl  map[string]bool
	strLits   map[string]string
	strOrder  []string
	tags      map[string]int
	obls      []*Obligation
	assumes   []string // unchecked assumptions used in this unit (extern defaults etc.)
	inlined   map[string]bool
	usedSpecs map[string]bool
	noDefine  bool // build pure terms (inside quantifier bodies)
}

type Obligation struct {
	Name       string
	Kind       string
	At         int    // number of lines in scope
	PC         string // path condition term
	Goal       string // must hold under PC
	Pos        string
	Result     string // unsat|sat|unknown|timeout
	Solver     string
	Ms         int64
	Model      string
	Func       string
	Extra      []string // extra lines only for this obligation (e.g. hints)
	File       string
	Disagree   bool
	AllSolvers string
	ExpectSat  bool
	Before     *Obligation // after-call reachability: the same point before the callee's postcondition was assumed
	KnownFail  bool // named by a known finding: expected to fail, decided with a short timeout and no retry
	// replay info
	Unit *Unit
}

func newEmitter() *Emitter {
	e := &Emitter{preSeen: map[string]bool{}, structs: map[string]bool{}, heapDecl: map[string]bool{},
		strLits: map[string]string{}, tags: map[string]int{}, inlined: map[string]bool{}, usedSpecs: map[string]bool{}}
	e.pre("(declare-sort Str 0)")
	e.pre("(declare-fun strlen (Str) Int)")
	e.pre("(declare-fun strAt (Str Int) Int)")
	e.pre("(declare-fun strcat (Str Str) Str)")
	e.pre("(declare-fun strslice (Str Int Int) Str)")
	e.pre("(declare-fun strless (Str Str) Bool)")
	e.pre("(declare-const str_empty Str)")
	e.pre("(assert (= (strlen str_empty) 0))")
	e.pre("(declare-datatypes ((Slice 0)) (((mkSlice (s_base Int) (s_off Int) (s_len Int) (s_cap Int)))))")
	e.pre("(declare-fun itype (Int) Int)")
	e.pre("(declare-const INF Real)")
	e.pre("(assert (> INF 1000000000000000000000000000000.0))")
	e.pre("(define-fun tdiv ((a Int) (b Int)) Int (ite (>= a 0) (ite (> b 0) (div a b) (- (div a (- b)))) (ite (> b 0) (- (div (- a) b)) (div (- a) (- b)))))")
	e.pre("(define-fun tmod ((a Int) (b Int)) Int (- a (* b (tdiv a b))))")
	e.pre("(define-fun trunc ((x Real)) Int (ite (>= x 0.0) (to_int x) (- (to_int (- x)))))")
	e.pre("(define-fun roundhalf ((x Real)) Int (ite (>= x 0.0) (to_int (+ x 0.5)) (- (to_int (+ (- x) 0.5)))))")
	e.pre("(define-fun ceilr ((x Real)) Int (- (to_int (- x))))")
	return e
}

func (e *Emitter) pre(s string) {
	if e.preSeen[s] {
		return
	}
	e.preSeen[s] = true
	e.preamble = append(e.preamble, s)
}

func (e *Emitter) line(s string) { e.lines = append(e.lines, s) }

func (e *Emitter) assert(t string) {
	if t == "" || t == "true" || e.noDefine {
		return
	}
	e.line("(assert " + t + ")")
}

// fresh declares a new constant of the given sort and returns its name.
func (e *Emitter) fresh(hint, srt string) string {
	e.n++
	name := fmt.Sprintf("%s!%d", sanitize(hint), e.n)
	e.line(fmt.Sprintf("(declare-const %s %s)", name, srt))
	return name
}

// define declares a new constant equal to term (keeps VC size linear).
func (e *Emitter) define(hint, srt, term string) string {
	if isAtom(term) || e.noDefine {
		return term
	}
	e.n++
	n := fmt.Sprintf("%s!%d", sanitize(hint), e.n)
	// a nullary define-fun is expanded by the solvers like a macro: intermediate values stay
	// syntactically transparent (important for nonlinear monomials and congruence)
	e.line(fmt.Sprintf("(define-fun %s () %s %s)", n, srt, term))
	if e.defs == nil {
		e.defs = map[string]string{}
	}
	e.defs[n] = term
	return n
}

// sel applies field selector i of struct sort sname to term, simplifying through the
// definitions of intermediate values: a selector of a constructor application is the
// component, a selector of an if-then-else whose branches select the same term is that term.
// This keeps e.g. wt.nowRelMS the same term after other fields of wt were assigned.
func (e *Emitter) sel(sname, fname string, i int, term string) string {
	selName := e.fieldSel(sname, fname, i)
	if r, ok := e.selSimp(selName, "(mk_"+sname+" ", i, term, 0); ok {
		return r
	}
	return fmt.Sprintf("(%s %s)", selName, term)
}

func (e *Emitter) selSimp(selName, ctor string, i int, term string, depth int) (string, bool) {
	if depth > 40 {
		return "", false
	}
	body := term
	if b, ok := e.defs[term]; ok {
		body = b
	}
	if strings.HasPrefix(body, ctor) {
		args := splitArgs(body[len(ctor) : len(body)-1])
		if i < len(args) {
			return args[i], true
		}
		return "", false
	}
	if strings.HasPrefix(body, "(ite ") {
		args := splitArgs(body[5 : len(body)-1])
		if len(args) == 3 {
			a, ok1 := e.selSimp(selName, ctor, i, args[1], depth+1)
			if !ok1 {
				a = fmt.Sprintf("(%s %s)", selName, args[1])
			}
			b, ok2 := e.selSimp(selName, ctor, i, args[2], depth+1)
			if !ok2 {
				b = fmt.Sprintf("(%s %s)", selName, args[2])
			}
			if a == b {
				return a, true
			}
		}
	}
	return "", false
}

// splitArgs splits a space-separated list of s-expressions at top level.
func splitArgs(s string) []string {
	var out []string
	depth, start := 0, -1
	for i := 0; i < len(s); i++ {
		c := s[i]
		switch {
		case c == '(':
			if depth == 0 && start < 0 {
				start = i
			}
			depth++
		case c == ')':
			depth--
			if depth == 0 && start >= 0 {
				out = append(out, s[start:i+1])
				start = -1
			}
		case c == ' ' || c == '\n' || c == '\t':
			if depth == 0 && start >= 0 {
				out = append(out, s[start:i])
				start = -1
			}
		default:
			if depth == 0 && start < 0 {
				start = i
			}
		}
	}
	if start >= 0 {
		out = append(out, s[start:])
	}
	return out
}

func isAtom(t string) bool {
	if t == "" {
		return true
	}
	if t[0] == '(' {
		// negative literal is fine
		return false
	}
	return !strings.ContainsAny(t, " ")
}

func sanitize(s string) string {
	var b strings.Builder
	for _, r := range s {
		switch {
		case r >= 'a' && r <= 'z', r >= 'A' && r <= 'Z', r >= '0' && r <= '9', r == '_':
			b.WriteRune(r)
		case r == '.', r == '/', r == '-':
			b.WriteRune('_')
		case r == '*':
			b.WriteString("P")
		case r == '[':
			b.WriteString("L")
		case r == ']':
			b.WriteString("R")
		default:
			b.WriteRune('_')
		}
	}
	if b.Len() == 0 {
		return "v"
	}
	return b.String()
}

func qual(p *types.Package) string { return p.Name() }

func typeID(t types.Type) string {
	return sanitize(types.TypeString(t, qual))
}

func isUnsigned(t types.Type) bool {
	b, ok := t.Underlying().(*types.Basic)
	return ok && b.Info()&types.IsUnsigned != 0
}
func isInteger(t types.Type) bool {
	b, ok := t.Underlying().(*types.Basic)
	return ok && b.Info()&types.IsInteger != 0
}
func isFloat(t types.Type) bool {
	b, ok := t.Underlying().(*types.Basic)
	return ok && b.Info()&types.IsFloat != 0
}
func isString(t types.Type) bool {
	b, ok := t.Underlying().(*types.Basic)
	return ok && b.Info()&types.IsString != 0
}
func isBool(t types.Type) bool {
	b, ok := t.Underlying().(*types.Basic)
	return ok && b.Info()&types.IsBoolean != 0
}

func intBits(t types.Type) int {
	b, ok := t.Underlying().(*types.Basic)
	if !ok {
		return 64
	}
	switch b.Kind() {
	case types.Int8, types.Uint8:
		return 8
	case types.Int16, types.Uint16:
		return 16
	case types.Int32, types.Uint32:
		return 32
	}
	return 64
}

func pow2(n int) string {
	switch n {
	case 8:
		return "256"
	case 16:
		return "65536"
	case 32:
		return "4294967296"
	case 33:
		return "8589934592"
	case 63:
		return "9223372036854775808"
	case 64:
		return "18446744073709551616"
	}
	panic("pow2")
}

// sortOf maps a Go type to an SMT sort, declaring datatypes on demand.
func (e *Emitter) sortOf(t types.Type) string {
	switch u := t.Underlying().(type) {
	case *types.Basic:
		switch {
		case u.Info()&types.IsInteger != 0:
			return "Int"
		case u.Info()&types.IsBoolean != 0:
			return "Bool"
		case u.Info()&types.IsFloat != 0:
			return "Real"
		case u.Info()&types.IsString != 0:
			return "Str"
		case u.Kind() == types.UnsafePointer, u.Kind() == types.UntypedNil:
			return "Int"
		}
		return "Int"
	case *types.Pointer, *types.Map, *types.Chan, *types.Signature, *types.Interface:
		return "Int"
	case *types.Slice:
		return "Slice"
	case *types.Array:
		return "(Array Int " + e.sortOf(u.Elem()) + ")"
	case *types.Struct:
		return e.structSort(t, u)
	case *types.Tuple:
		return "Int"
	case *types.TypeParam:
		return "Int"
	}
	return "Int"
}

func (e *Emitter) structName(t types.Type) string {
	if n, ok := t.(*types.Named); ok {
		o := n.Obj()
		nm := o.Name()
		if o.Pkg() != nil {
			nm = o.Pkg().Name() + "_" + nm
		}
		if n.TypeArgs() != nil && n.TypeArgs().Len() > 0 {
			nm += "_" + typeID(n.TypeArgs().At(0))
		}
		return "S_" + sanitize(nm)
	}
	if a, ok := t.(*types.Alias); ok {
		return e.structName(types.Unalias(a))
	}
	return "S_anon_" + typeID(t)
}

func (e *Emitter) structSort(t types.Type, u *types.Struct) string {
	name := e.structName(t)
	if e.structs[name] {
		return name
	}
	e.structs[name] = true
	// declare field sorts first (may recursively declare)
	var fs []string
	for i := 0; i < u.NumFields(); i++ {
		f := u.Field(i)
		fs = append(fs, fmt.Sprintf("(%s %s)", e.fieldSel(name, f.Name(), i), e.sortOf(f.Type())))
	}
	if len(fs) == 0 {
		e.pre(fmt.Sprintf("(declare-datatypes ((%s 0)) (((mk_%s))))", name, name))
	} else {
		e.pre(fmt.Sprintf("(declare-datatypes ((%s 0)) (((mk_%s %s))))", name, name, strings.Join(fs, " ")))
	}
	return name
}

func (e *Emitter) fieldSel(sname, fname string, i int) string {
	if fname == "_" {
		fname = fmt.Sprintf("blank%d", i)
	}
	return "f_" + sname + "_" + sanitize(fname)
}

// zeroOf returns the SMT term of the Go zero value of t.
func (e *Emitter) zeroOf(t types.Type) string {
	switch u := t.Underlying().(type) {
	case *types.Basic:
		switch {
		case u.Info()&types.IsInteger != 0:
			return "0"
		case u.Info()&types.IsBoolean != 0:
			return "false"
		case u.Info()&types.IsFloat != 0:
			return "0.0"
		case u.Info()&types.IsString != 0:
			return "str_empty"
		}
		return "0"
	case *types.Slice:
		return "(mkSlice 0 0 0 0)"
	case *types.Array:
		return e.constArray(e.sortOf(u.Elem()), e.zeroOf(u.Elem()))
	case *types.Struct:
		name := e.structSort(t, u)
		if u.NumFields() == 0 {
			return "mk_" + name
		}
		var fs []string
		for i := 0; i < u.NumFields(); i++ {
			fs = append(fs, e.zeroOf(u.Field(i).Type()))
		}
		return fmt.Sprintf("(mk_%s %s)", name, strings.Join(fs, " "))
	}
	return "0"
}

// typeInv returns an SMT constraint stating that term is a valid value of type t
// (machine ranges, slice well-formedness), or "" if none.
func (e *Emitter) typeInv(term string, t types.Type) string {
	return e.typeInvD(term, t, 0)
}

func (e *Emitter) typeInvD(term string, t types.Type, depth int) string {
	switch u := t.Underlying().(type) {
	case *types.Basic:
		switch {
		case u.Info()&types.IsUnsigned != 0:
			return fmt.Sprintf("(and (<= 0 %s) (< %s %s))", term, term, pow2(intBits(t)))
		case u.Info()&types.IsInteger != 0:
			b := intBits(t)
			var h string
			if b == 64 {
				h = pow2(63)
			} else {
				h = halfPow(b)
			}
			return fmt.Sprintf("(and (<= (- %s) %s) (< %s %s))", h, term, term, h)
		case u.Info()&types.IsString != 0:
			return fmt.Sprintf("(>= (strlen %s) 0)", term)
		}
	case *types.Slice:
		return fmt.Sprintf("(and (<= 0 (s_base %s)) (<= 0 (s_off %s)) (<= 0 (s_len %s)) (<= (s_len %s) (s_cap %s)) (=> (= (s_base %s) 0) (= (s_cap %s) 0)))", term, term, term, term, term, term, term)
	case *types.Pointer, *types.Map, *types.Interface, *types.Chan, *types.Signature:
		return fmt.Sprintf("(<= 0 %s)", term)
	case *types.Struct:
		if depth > 3 {
			return ""
		}
		name := e.structSort(t, u)
		var cs []string
		for i := 0; i < u.NumFields(); i++ {
			f := u.Field(i)
			c := e.typeInvD(fmt.Sprintf("(%s %s)", e.fieldSel(name, f.Name(), i), term), f.Type(), depth+1)
			if c != "" {
				cs = append(cs, c)
			}
		}
		return and(cs...)
	}
	return ""
}

func btoi(b bool) int {
	if b {
		return 1
	}
	return 0
}

func halfPow(b int) string {
	switch b {
	case 8:
		return "128"
	case 16:
		return "32768"
	case 32:
		return "2147483648"
	}
	return pow2(63)
}

func and(cs ...string) string {
	var out []string
	for _, c := range cs {
		if c == "" || c == "true" {
			continue
		}
		if c == "false" {
			return "false"
		}
		out = append(out, c)
	}
	switch len(out) {
	case 0:
		return "true"
	case 1:
		return out[0]
	}
	return "(and " + strings.Join(out, " ") + ")"
}

func or(cs ...string) string {
	var out []string
	for _, c := range cs {
		if c == "" || c == "false" {
			continue
		}
		if c == "true" {
			return "true"
		}
		out = append(out, c)
	}
	switch len(out) {
	case 0:
		return "false"
	case 1:
		return out[0]
	}
	return "(or " + strings.Join(out, " ") + ")"
}

func not(c string) string {
	switch c {
	case "true":
		return "false"
	case "false":
		return "true"
	}
	if strings.HasPrefix(c, "(not ") && balancedTail(c) {
		return c[5 : len(c)-1]
	}
	return "(not " + c + ")"
}

func balancedTail(c string) bool {
	// c == "(not X)" with X a single balanced term
	d := 0
	for i, r := range c {
		if r == '(' {
			d++
		} else if r == ')' {
			d--
			if d == 0 && i != len(c)-1 {
				return false
			}
		}
	}
	return true
}

func implies(a, b string) string {
	if a == "true" {
		return b
	}
	if b == "true" || a == "false" {
		return "true"
	}
	return "(=> " + a + " " + b + ")"
}

func ite(c, a, b string) string {
	if c == "true" {
		return a
	}
	if c == "false" {
		return b
	}
	if a == b {
		return a
	}
	return "(ite " + c + " " + a + " " + b + ")"
}

// heapName returns the name of the heap map holding objects of (pointee) type t:
// H_<T> : (Array Int T).
func (e *Emitter) heapName(t types.Type) string {
	n := "H_" + typeID(t)
	if !e.heapDecl[n] {
		e.heapDecl[n] = true
	}
	return n
}

// elemHeapName: E_<T> : (Array Int (Array Int T)), backing arrays of element type t.
func (e *Emitter) elemHeapName(t types.Type) string {
	n := "E_" + typeID(t)
	if !e.heapDecl[n] {
		e.heapDecl[n] = true
	}
	return n
}

func (e *Emitter) heapSort(name string, t types.Type) string {
	if strings.HasPrefix(name, "E_") {
		return "(Array Int (Array Int " + e.sortOf(t) + "))"
	}
	return "(Array Int " + e.sortOf(t) + ")"
}

// strLit returns the constant for a string literal (distinct literals are distinct).
func (e *Emitter) strLit(s string) string {
	if s == "" {
		return "str_empty"
	}
	if n, ok := e.strLits[s]; ok {
		return n
	}
	n := fmt.Sprintf("strlit_%d_%s", len(e.strLits), sanitize(trunc(s, 12)))
	e.strLits[s] = n
	e.strOrder = append(e.strOrder, s)
	return n
}

func trunc(s string, n int) string {
	if len(s) > n {
		return s[:n]
	}
	return s
}

func (e *Emitter) strPreamble() []string {
	var out []string
	var names []string
	for _, s := range e.strOrder {
		n := e.strLits[s]
		names = append(names, n)
		out = append(out, fmt.Sprintf("(declare-const %s Str)", n))
		out = append(out, fmt.Sprintf("(assert (= (strlen %s) %d))", n, len(s)))
		if len(s) <= 24 {
			for i := 0; i < len(s); i++ {
				out = append(out, fmt.Sprintf("(assert (= (strAt %s %d) %d))", n, i, s[i]))
			}
		}
	}
	if len(names) > 0 {
		out = append(out, "(assert (distinct str_empty "+strings.Join(names, " ")+"))")
	}
	return out
}

func (e *Emitter) typeTag(t types.Type) int {
	id := types.TypeString(t, nil)
	if v, ok := e.tags[id]; ok {
		return v
	}
	v := len(e.tags) + 1
	e.tags[id] = v
	return v
}

// box/unbox functions for interface payloads of dynamic type t.
func (e *Emitter) boxFn(t types.Type) (box, unbox string) {
	id := typeID(t)
	box, unbox = "box_"+id, "unbox_"+id
	e.pre(fmt.Sprintf("(declare-fun %s (%s) Int)", box, e.sortOf(t)))
	e.pre(fmt.Sprintf("(declare-fun %s (Int) %s)", unbox, e.sortOf(t)))
	return
}

func sortedKeys[V any](m map[string]V) []string {
	var ks []string
	for k := range m {
		ks = append(ks, k)
	}
	sort.Strings(ks)
	return ks
}

// constArray: the array that maps every index to zero.  cvc5 only accepts (as const ...) over
// value literals, so for element sorts whose zero is a declared constant (strings) the array
// is a declared constant with an axiom.
func (e *Emitter) constArray(elemSort, zero string) string {
	switch elemSort {
	case "Int", "Real", "Bool":
		return fmt.Sprintf("((as const (Array Int %s)) %s)", elemSort, zero)
	}
	if (strings.HasPrefix(zero, "(") || zero == "0") && !strings.Contains(zero, "str_empty") {
		return fmt.Sprintf("((as const (Array Int %s)) %s)", elemSort, zero)
	}
	n := "zeroarr_" + sanitize(elemSort)
	if e.zeroArrs == nil {
		e.zeroArrs = map[string]bool{}
	}
	if !e.zeroArrs[n] {
		e.zeroArrs[n] = true
		e.pre(fmt.Sprintf("(declare-const %s (Array Int %s))", n, elemSort))
		e.pre(fmt.Sprintf("(assert (forall ((i Int)) (! (= (select %s i) %s) :pattern ((select %s i)))))", n, zero, n))
	}
	return n
}
