package main

// Construction of Go input values (as Go source) from the solver model.

import (
	"fmt"
	"go/types"
	"math/big"
	"sort"
	"strconv"
	"strings"
)

const (
	replayMaxLen   = 1 << 16
	replayMaxElems = 64
	replayMaxDepth = 3
)

// gobj is one heap object of the input graph (identity = kind + type + reference).
type gobj struct {
	key   string
	name  string
	decl  string   // declaration statement (for backing arrays produced at the end)
	inits []string // content assignments
	desc  string
	// backing arrays
	isArr  bool
	elemTy string
	size   int64
	elems  map[int64]bool
}

type inputGen struct {
	m       *rmodel
	u       *Unit
	pkg     *types.Package
	imports map[string]string // path -> local name
	impUsed map[string]bool   // local names taken
	objs    map[string]*gobj
	order   []*gobj
	notes   map[string]bool
	abort   string // reason why no replay is possible
	nO, nA  int
	nM, nI  int
	strIDs  map[string]string // go literal -> abstract id (diagnostics)
}

func newInputGen(m *rmodel, u *Unit, pkg *types.Package, imports map[string]string, impUsed map[string]bool) *inputGen {
	return &inputGen{m: m, u: u, pkg: pkg, imports: imports, impUsed: impUsed, objs: map[string]*gobj{}, notes: map[string]bool{}, strIDs: map[string]string{}}
}

func (g *inputGen) note(format string, a ...any) { g.notes[fmt.Sprintf(format, a...)] = true }

func (g *inputGen) importName(path, name string) string {
	if n, ok := g.imports[path]; ok {
		return n
	}
	n := name
	for i := 0; g.impUsed[n] || n == "_" || n == "."; i++ {
		n = fmt.Sprintf("govc_%s%d", name, i)
	}
	g.impUsed[n] = true
	g.imports[path] = n
	return n
}

func (g *inputGen) qual(p *types.Package) string {
	if p == g.pkg || p.Path() == g.pkg.Path() {
		return ""
	}
	return g.importName(p.Path(), p.Name())
}

func (g *inputGen) typeStr(t types.Type) string {
	return types.TypeString(t, g.qual)
}

// conv renders a conversion T(x) with parentheses where the type syntax needs them.
func (g *inputGen) conv(t types.Type, x string) string {
	ts := g.typeStr(t)
	switch t.(type) {
	case *types.Named, *types.Basic, *types.Alias:
		return ts + "(" + x + ")"
	}
	return "(" + ts + ")(" + x + ")"
}

func (g *inputGen) heapDeclared(name string) bool { return g.m.declared[name+"_init"] }

// intOf fetches an Int valued term.
func (g *inputGen) intOf(term, inv string) (*big.Int, bool) {
	v := g.m.get(term, nil, "Int", inv)
	if v == nil {
		return nil, false
	}
	iv, ok := sxInt(v)
	if !ok {
		g.abort = fmt.Sprintf("model value of %s is not an integer: %s", trunc(term, 80), trunc(v.String(), 80))
		return nil, false
	}
	return iv, true
}

// expr: Go expression for the value of SMT term of Go type ty (fetching the model value).
// Returns "" while values are still pending.
func (g *inputGen) expr(term string, ty types.Type, depth int) string {
	if g.abort != "" {
		return ""
	}
	switch t := ty.Underlying().(type) {
	case *types.Basic:
		if t.Info()&types.IsString != 0 {
			return g.strExpr(term, ty)
		}
	case *types.Array:
		return g.arrayExpr(term, ty, t, depth)
	case *types.Struct:
		if t.NumFields() == 0 {
			return g.typeStr(ty) + "{}"
		}
	}
	v := g.m.getTyped(term, ty)
	if v == nil {
		return ""
	}
	return g.exprV(term, ty, v, depth)
}

func wrapBig(v *big.Int, bits int, unsigned bool) (*big.Int, bool) {
	mod := new(big.Int).Lsh(big.NewInt(1), uint(bits))
	r := new(big.Int).Mod(v, mod)
	if !unsigned {
		half := new(big.Int).Lsh(big.NewInt(1), uint(bits-1))
		if r.Cmp(half) >= 0 {
			r.Sub(r, mod)
		}
	}
	return r, r.Cmp(v) != 0
}

// exprV: Go expression of a value whose model value v is known.
func (g *inputGen) exprV(term string, ty types.Type, v *sx, depth int) string {
	if g.abort != "" {
		return ""
	}
	switch t := ty.Underlying().(type) {
	case *types.Basic:
		switch {
		case t.Info()&types.IsString != 0:
			return g.strExpr(term, ty)
		case t.Info()&types.IsBoolean != 0:
			b, ok := sxBool(v)
			if !ok {
				g.abort = "model value is not a boolean: " + trunc(v.String(), 80)
				return ""
			}
			if _, plain := ty.(*types.Basic); plain {
				return strconv.FormatBool(b)
			}
			return g.conv(ty, strconv.FormatBool(b))
		case t.Info()&types.IsInteger != 0:
			iv, ok := sxInt(v)
			if !ok {
				g.abort = "model value is not an integer: " + trunc(v.String(), 80)
				return ""
			}
			w, changed := wrapBig(iv, intBits(ty), isUnsigned(ty))
			if changed {
				g.note("integer value %s of %s is outside the range of %s; wrapped to %s", iv, trunc(term, 60), ty, w)
			}
			return g.conv(ty, w.String())
		case t.Info()&types.IsFloat != 0:
			r, ok := sxRat(v)
			if !ok {
				g.abort = "model value is not a rational: " + trunc(v.String(), 80)
				return ""
			}
			if r.IsInt() {
				return g.conv(ty, r.Num().String()+".0")
			}
			return g.conv(ty, r.Num().String()+".0 / "+r.Denom().String()+".0")
		case t.Kind() == types.UnsafePointer:
			g.imports["unsafe"] = "unsafe"
			return "unsafe.Pointer(nil)"
		case t.Info()&types.IsComplex != 0:
			g.note("complex value left zero")
			return g.conv(ty, "0")
		}
	case *types.Pointer:
		return g.ptrExpr(ty, t, v, depth)
	case *types.Slice:
		return g.sliceExpr(ty, t, v, depth)
	case *types.Map:
		return g.mapExpr(ty, t, v, depth)
	case *types.Interface:
		return g.ifaceExpr(ty, t, v)
	case *types.Signature:
		if iv, ok := sxInt(v); ok && iv.Sign() != 0 {
			g.note("function value replaced by nil")
		}
		return g.conv(ty, "nil")
	case *types.Chan:
		return g.conv(ty, "nil")
	case *types.Struct:
		return g.structExpr(term, ty, t, v, depth)
	case *types.Array:
		return g.arrayExpr(term, ty, t, depth)
	}
	g.abort = fmt.Sprintf("unsupported input type %s", ty)
	return ""
}

func (g *inputGen) strExpr(term string, ty types.Type) string {
	n, ok := g.intOf("(strlen "+term+")", "(>= (strlen "+term+") 0)")
	if !ok {
		return ""
	}
	if n.Sign() < 0 || n.Cmp(big.NewInt(replayMaxLen)) > 0 {
		g.abort = fmt.Sprintf("string length %s out of replay bounds", n)
		return ""
	}
	ln := int(n.Int64())
	bs := make([]byte, ln)
	complete := true
	for i := 0; i < ln; i++ {
		if i >= replayMaxElems {
			bs[i] = 'x'
			continue
		}
		t := fmt.Sprintf("(strAt %s %d)", term, i)
		b, ok := g.intOf(t, fmt.Sprintf("(and (<= 0 %s) (< %s 256))", t, t))
		if !ok {
			complete = false
			continue
		}
		w, _ := wrapBig(b, 8, true)
		bs[i] = byte(w.Int64())
	}
	if !complete {
		return ""
	}
	if ln > replayMaxElems {
		g.note("string of length %d: only the first %d bytes come from the model", ln, replayMaxElems)
	}
	if _, plain := ty.(*types.Basic); plain {
		return strconv.QuoteToASCII(string(bs))
	}
	return g.conv(ty, strconv.QuoteToASCII(string(bs)))
}

func (g *inputGen) arrayExpr(term string, ty types.Type, t *types.Array, depth int) string {
	n := t.Len()
	if n > replayMaxLen {
		g.abort = fmt.Sprintf("array length %d out of replay bounds", n)
		return ""
	}
	var parts []string
	complete := true
	for i := int64(0); i < n && i < replayMaxElems; i++ {
		e := g.expr(fmt.Sprintf("(select %s %d)", term, i), t.Elem(), depth)
		if e == "" {
			complete = false
			continue
		}
		parts = append(parts, fmt.Sprintf("%d: %s", i, e))
	}
	if !complete || g.abort != "" {
		return ""
	}
	return g.typeStr(ty) + "{" + strings.Join(parts, ", ") + "}"
}

func (g *inputGen) fieldSettable(f *types.Var) bool {
	if f.Name() == "_" {
		return false
	}
	if f.Exported() {
		return true
	}
	return f.Pkg() != nil && (f.Pkg() == g.pkg || f.Pkg().Path() == g.pkg.Path())
}

func (g *inputGen) structExpr(term string, ty types.Type, t *types.Struct, v *sx, depth int) string {
	sn := g.u.em.sortOf(ty)
	if t.NumFields() == 0 {
		return g.typeStr(ty) + "{}"
	}
	if v.head() != "mk_"+sn || len(v.args()) != t.NumFields() {
		g.abort = fmt.Sprintf("unexpected model value for struct %s: %s", ty, trunc(v.String(), 100))
		return ""
	}
	var parts []string
	complete := true
	for i := 0; i < t.NumFields(); i++ {
		f := t.Field(i)
		if !g.fieldSettable(f) {
			g.note("unexported fields of %s cannot be set from a test in package %s; left zero", g.typeStr(ty), g.pkg.Name())
			continue
		}
		ft := fmt.Sprintf("(%s %s)", g.u.em.fieldSel(sn, f.Name(), i), term)
		e := g.exprV(ft, f.Type(), v.args()[i], depth)
		if e == "" {
			complete = false
			continue
		}
		parts = append(parts, f.Name()+": "+e)
	}
	if !complete || g.abort != "" {
		return ""
	}
	return g.typeStr(ty) + "{" + strings.Join(parts, ", ") + "}"
}

func (g *inputGen) ptrExpr(ty types.Type, t *types.Pointer, v *sx, depth int) string {
	r, ok := sxInt(v)
	if !ok {
		g.abort = "model value of a pointer is not an integer: " + trunc(v.String(), 80)
		return ""
	}
	if r.Sign() == 0 {
		return g.conv(ty, "nil")
	}
	hn := g.u.em.heapName(t.Elem())
	key := hn + "#" + r.String()
	if o, ok := g.objs[key]; ok {
		return g.conv(ty, o.name)
	}
	g.nO++
	o := &gobj{key: key, name: fmt.Sprintf("govcO%d", g.nO)}
	o.decl = fmt.Sprintf("%s := new(%s)", o.name, g.typeStr(t.Elem()))
	g.objs[key] = o
	g.order = append(g.order, o)
	o.desc = "&" + g.typeStr(t.Elem()) + "{} (zero)"
	switch {
	case depth >= replayMaxDepth:
		g.note("object graph cut at depth %d: *%s left zero", replayMaxDepth, g.typeStr(t.Elem()))
	case !g.heapDeclared(hn):
		// the function never reads this heap at entry: content is irrelevant
	default:
		e := g.expr(fmt.Sprintf("(select %s_init %s)", hn, smtInt(r)), t.Elem(), depth+1)
		if e != "" {
			o.inits = append(o.inits, fmt.Sprintf("*%s = %s", o.name, e))
			o.desc = "&" + e
		} else {
			o.desc = ""
		}
	}
	return g.conv(ty, o.name)
}

func (g *inputGen) sliceExpr(ty types.Type, t *types.Slice, v *sx, depth int) string {
	if v.head() != "mkSlice" || len(v.args()) != 4 {
		g.abort = "unexpected model value for a slice: " + trunc(v.String(), 80)
		return ""
	}
	var f [4]int64
	for i, a := range v.args() {
		iv, ok := sxInt(a)
		if !ok {
			g.abort = "slice component is not an integer: " + trunc(v.String(), 80)
			return ""
		}
		if i > 0 && (iv.Sign() < 0 || iv.Cmp(big.NewInt(replayMaxLen)) > 0) {
			g.abort = fmt.Sprintf("slice %s: offset/len/cap out of replay bounds (max %d)", v.String(), replayMaxLen)
			return ""
		}
		if i == 0 {
			if iv.Sign() < 0 {
				g.abort = "negative slice base in model"
				return ""
			}
			if !iv.IsInt64() {
				iv = big.NewInt(1 << 62)
			}
		}
		f[i] = iv.Int64()
	}
	base, off, ln, cp := f[0], f[1], f[2], f[3]
	if cp < ln {
		g.abort = "model slice has cap < len: " + v.String()
		return ""
	}
	if base == 0 {
		if ln != 0 {
			g.abort = "model slice has nil base but non-zero length: " + v.String()
			return ""
		}
		return g.conv(ty, "nil")
	}
	if off+cp > replayMaxLen {
		g.abort = fmt.Sprintf("slice %s: backing array larger than replay bound %d", v.String(), replayMaxLen)
		return ""
	}
	en := g.u.em.elemHeapName(t.Elem())
	key := en + "#" + v.args()[0].String()
	o, ok := g.objs[key]
	if !ok {
		g.nA++
		o = &gobj{key: key, name: fmt.Sprintf("govcA%d", g.nA), isArr: true, elemTy: g.typeStr(t.Elem()), elems: map[int64]bool{}}
		g.objs[key] = o
		g.order = append(g.order, o)
	}
	if off+cp > o.size {
		o.size = off + cp
	}
	if depth < replayMaxDepth && g.heapDeclared(en) {
		hi := off + ln
		if ln > replayMaxElems {
			hi = off + replayMaxElems
			g.note("slice of length %d: only the first %d elements come from the model", ln, replayMaxElems)
		}
		for k := off; k < hi; k++ {
			if o.elems[k] {
				continue
			}
			e := g.expr(fmt.Sprintf("(select (select %s_init %s) %d)", en, v.args()[0].String(), k), t.Elem(), depth+1)
			if e != "" {
				o.elems[k] = true
				o.inits = append(o.inits, fmt.Sprintf("%s[%d] = %s", o.name, k, e))
			}
		}
	} else if depth >= replayMaxDepth && ln > 0 {
		g.note("object graph cut at depth %d: elements of %s left zero", replayMaxDepth, g.typeStr(ty))
	}
	return g.conv(ty, fmt.Sprintf("%s[%d:%d:%d]", o.name, off, off+ln, off+cp))
}

func (g *inputGen) mapExpr(ty types.Type, t *types.Map, v *sx, depth int) string {
	r, ok := sxInt(v)
	if !ok {
		g.abort = "model value of a map is not an integer: " + trunc(v.String(), 80)
		return ""
	}
	if r.Sign() == 0 {
		return g.conv(ty, "nil")
	}
	dn, vn := g.u.mapHeaps(t)
	key := dn + "#" + r.String()
	if o, ok := g.objs[key]; ok {
		return g.conv(ty, o.name)
	}
	g.nM++
	o := &gobj{key: key, name: fmt.Sprintf("govcM%d", g.nM)}
	o.decl = fmt.Sprintf("%s := make(%s)", o.name, g.typeStr(ty))
	o.desc = g.typeStr(ty) + "{}"
	g.objs[key] = o
	g.order = append(g.order, o)
	// Entries: only keys that are themselves inputs of the function (parameters of the
	// key type) can be identified in the model; every other key is left absent.
	if depth < replayMaxDepth && g.heapDeclared(dn) {
		var ents []string
		for _, p := range g.u.fn.Params {
			pv, ok := g.u.topParams[p.Name()]
			if !ok || !types.Identical(p.Type(), t.Key()) {
				continue
			}
			in := g.m.get(fmt.Sprintf("(select (select %s_init %s) %s)", dn, smtInt(r), pv.T), nil, "Bool", "")
			if in == nil {
				o.desc = ""
				continue
			}
			if b, ok := sxBool(in); !ok || !b {
				continue
			}
			ke := g.expr(pv.T, p.Type(), depth+1)
			ve := ""
			if g.heapDeclared(vn) {
				ve = g.expr(fmt.Sprintf("(select (select %s_init %s) %s)", vn, smtInt(r), pv.T), t.Elem(), depth+1)
			} else {
				ve = g.zeroExpr(t.Elem())
			}
			if ke == "" || ve == "" {
				o.desc = ""
				continue
			}
			o.inits = append(o.inits, fmt.Sprintf("%s[%s] = %s", o.name, ke, ve))
			ents = append(ents, ke+": "+ve)
		}
		if o.desc != "" {
			o.desc = g.typeStr(ty) + "{" + strings.Join(ents, ", ") + "}"
		}
		g.note("map %s: only entries keyed by parameters of the function are taken from the model", g.typeStr(ty))
	}
	return g.conv(ty, o.name)
}

func (g *inputGen) zeroExpr(ty types.Type) string {
	return fmt.Sprintf("*new(%s)", g.typeStr(ty))
}

var errorIface = types.Universe.Lookup("error").Type().Underlying().(*types.Interface)

func (g *inputGen) ifaceExpr(ty types.Type, t *types.Interface, v *sx) string {
	r, ok := sxInt(v)
	if !ok {
		g.abort = "model value of an interface is not an integer: " + trunc(v.String(), 80)
		return ""
	}
	if r.Sign() == 0 {
		return g.conv(ty, "nil")
	}
	if !types.Implements(types.Universe.Lookup("error").Type(), t) {
		g.note("non-nil value of interface type %s cannot be constructed; nil used", g.typeStr(ty))
		return g.conv(ty, "nil")
	}
	key := "I#" + r.String()
	o, ok := g.objs[key]
	if !ok {
		g.nI++
		g.imports["errors"] = "errors"
		o = &gobj{key: key, name: fmt.Sprintf("govcI%d", g.nI)}
		o.decl = fmt.Sprintf("%s := errors.New(\"replay\")", o.name)
		o.desc = "errors.New(\"replay\")"
		g.objs[key] = o
		g.order = append(g.order, o)
	}
	return g.conv(ty, o.name)
}

// statements returns the Go statements that build all heap objects.
func (g *inputGen) statements() []string {
	var out []string
	for _, o := range g.order {
		if o.isArr {
			out = append(out, fmt.Sprintf("%s := make([]%s, %d)", o.name, o.elemTy, o.size))
		} else {
			out = append(out, o.decl)
		}
		out = append(out, "_ = "+o.name)
	}
	for _, o := range g.order {
		out = append(out, o.inits...)
	}
	return out
}

func (g *inputGen) describe(inputs map[string]any) {
	for _, o := range g.order {
		if o.isArr {
			inits := append([]string{}, o.inits...)
			sort.Strings(inits)
			inputs[o.name] = fmt.Sprintf("backing array []%s of %d elements; set: %s", o.elemTy, o.size, trunc(strings.Join(inits, "; "), 3000))
		} else {
			inputs[o.name] = trunc(o.desc, 3000)
		}
	}
}

func (g *inputGen) noteList() []string {
	var out []string
	for n := range g.notes {
		out = append(out, n)
	}
	sort.Strings(out)
	return out
}
