package main

// Calls: builtins, intrinsics, contract-based modular calls, inlining, externs.

import (
	"fmt"
	"go/ast"
	"go/token"
	"go/types"
	"strconv"
	"strings"

	"golang.org/x/tools/go/ssa"
)

func (u *Unit) call(f *Frame, st *State, cc *ssa.CallCommon, res ssa.Value, pos token.Pos) []Val {
	var args []Val
	for _, a := range cc.Args {
		args = append(args, u.value(f, st, a))
	}
	var resTy types.Type
	if res != nil {
		resTy = res.Type()
	} else {
		resTy = cc.Signature().Results()
	}
	// builtins
	if bi, ok := cc.Value.(*ssa.Builtin); ok {
		return u.builtin(f, st, bi, cc, args, resTy, pos)
	}
	u.noteCalled(st, cc)
	if cc.IsInvoke() {
		recv := u.value(f, st, cc.Value)
		key := u.ctx.ifaceKey(cc)
		if isResponseWriter(cc.Value.Type()) {
			switch cc.Method.Name() {
			case "WriteHeader":
				u.answerEvent(f, st, recv.T, "WriteHeader", pos)
			case "Write":
				u.answerEvent(f, st, recv.T, "Write", pos)
			}
		}
		u.oblige(f, st, "nil", "invoke:"+cc.Method.Name(), fmt.Sprintf("(not (= %s 0))", recv.T), pos)
		u.callSiteObligationsNamed(f, st, cc.Method.Name(), "", key, nil, cc.Signature(), append([]Val{recv}, args...), pos)
		if con := u.ctx.externs[key]; con != nil {
			return u.contractCall(f, st, con, nil, append([]Val{recv}, args...), resTy, pos, key)
		}
		if cc.Method.Name() == "Error" || cc.Method.Name() == "String" {
			return []Val{u.freshVal("str", types.Typ[types.String], st)}
		}
		u.extDefault(key)
		return u.freshResults(st, resTy)
	}
	callee := cc.StaticCallee()
	var binds []Val
	if callee == nil {
		v := u.value(f, st, cc.Value)
		if v.Fn != nil {
			callee = v.Fn
			binds = v.Binds
		} else if fk := fieldFuncKey(cc.Value); fk != "" && u.ctx.externs[fk] != nil {
			// call of a func-typed struct field with a declared contract
			return u.contractCall(f, st, u.ctx.externs[fk], nil, args, resTy, pos, fk)
		} else {
			u.extDefault("dynamic call " + cc.Value.Name())
			return u.freshResults(st, resTy)
		}
	} else if mc, ok := cc.Value.(*ssa.MakeClosure); ok {
		for _, b := range mc.Bindings {
			binds = append(binds, u.value(f, st, b))
		}
	}
	key := u.ctx.fullKey(callee)
	if key == "net/http.Error" && len(args) == 3 && f.depth == 0 {
		u.answerEvent(f, st, args[0].T, "Error", pos)
	}
	u.callSiteObligations(f, st, callee, key, args, pos)
	if r, ok := u.intrinsic(f, st, key, callee, args, resTy, pos); ok {
		return r
	}
	// quantifier helpers called from ghost code: translate the call expression itself
	if u.ctx.isGhostFile(callee) && u.ctx.isGhostFile(f.fn) && (callee.Name() == "forall" || callee.Name() == "exists") {
		if ce := u.ctx.callExprAt(pos); ce != nil {
			env := u.loopEnv(f, st, f.fn, -1)
			ne := len(u.errs)
			v := env.expr(ce)
			if len(u.errs) == ne {
				return []Val{{T: u.em.define(callee.Name(), "Bool", v.T), Ty: types.Typ[types.Bool]}}
			}
		}
	}
	// ghost code calling a ghost specification function: evaluate it the way specifications
	// do (AST translation), so that asserts in lemma bodies and contract clauses agree syntactically
	if u.ctx.isGhostFile(callee) && u.ctx.contractFor(callee) == nil && callee.Signature.Results().Len() == 1 {
		ok := true
		for _, a := range args {
			if a.T == "" {
				ok = false
			}
		}
		if fobj, isFunc := callee.Object().(*types.Func); ok && isFunc {
			env := &SpecEnv{u: u, st: st, old: st, vars: map[string]Val{}, oldVars: map[string]Val{}, pkg: u.ctx.pkgOf(callee), fr: f}
			ne := len(u.errs)
			v := env.applyFunc(fobj, args)
			if len(u.errs) == ne {
				return []Val{{T: u.em.define(callee.Name(), u.em.sortOf(v.Ty), v.T), Ty: callee.Signature.Results().At(0).Type()}}
			}
			u.errs = u.errs[:ne]
		}
	}
	// contract
	if con := u.ctx.contractFor(callee); con != nil && !con.Inline {
		return u.contractCall(f, st, con, callee, args, resTy, pos, u.ctx.funcKey(callee))
	}
	if con := u.ctx.externs[key]; con != nil {
		return u.contractCall(f, st, con, callee, args, resTy, pos, key)
	}
	// wiring units do not explore callees: anything but tiny helpers is abstracted
	if u.con != nil && u.con.Wiring && callee.Blocks != nil && u.ctx.inRepo(callee) {
		n := 0
		for _, b := range callee.Blocks {
			n += len(b.Instrs)
		}
		icon := u.ctx.contractFor(callee)
		if (n > 40 || hasLoop(callee)) && !(icon != nil && icon.Inline && !hasLoop(callee)) {
			u.extDefault("abstracted callee (wiring unit): " + u.ctx.funcKey(callee))
			u.calleeAllocAny = true
			res := u.freshResults(st, resTy)
			// forget the heaps the callee (transitively) may write
			hs, all := u.ctx.heapWrites(u, callee, 0)
			for _, k := range sortedKeys(u.heapTy) {
				t := u.heapTy[k]
				if t == nil {
					continue
				}
				if _, w := hs[k]; w || all {
					st.heaps[k] = u.em.fresh(k, u.heapSortU(k, t))
				}
			}
			return res
		}
	}
	// inline
	if callee.Blocks != nil && u.ctx.inRepo(callee) {
		if f.depth >= u.depthMax {
			u.errf("inline depth exceeded at %s", key)
			return u.freshResults(st, resTy)
		}
		if hasLoop(callee) && !(u.abstract) {
			con := u.ctx.contractFor(callee)
			if con == nil || len(con.Loops) == 0 {
				u.errf("%s: call to %s which has loops and no contract", u.ctx.funcKey(f.fn), u.ctx.funcKey(callee))
				return u.freshResults(st, resTy)
			}
		}
		u.em.inlined[u.ctx.funcKey(callee)] = true
		pre := f.prefix + shortName(callee) + ":"
		if f.depth == 0 && f.prefix == "" {
			pre = shortName(callee) + ":"
		}
		preSt := st.clone()
		vals, out := u.runFuncB(callee, args, binds, st, f, pre)
		*st = *out
		// an inlined function that is itself verified against a contract also contributes
		// its (separately proved) postconditions as facts about the inlined result
		if icon := u.ctx.contractFor(callee); icon != nil && icon.Inline && len(icon.Ensures) > 0 {
			u.em.usedSpecs[u.ctx.funcKey(callee)] = true
			vars := map[string]Val{}
			names := icon.paramNames(callee)
			for i, a := range args {
				if i < len(names) && names[i] != "" && names[i] != "_" {
					vars[names[i]] = a
				}
			}
			post := map[string]Val{}
			for k, v := range vars {
				post[k] = v
			}
			rn := icon.resultNames(callee)
			for i, r := range vals {
				if i < len(rn) && rn[i] != "" && rn[i] != "_" {
					post[rn[i]] = r
				}
				post[fmt.Sprintf("ret%d", i)] = r
			}
			if len(vals) == 1 {
				post["result"] = vals[0]
			}
			penv := &SpecEnv{u: u, st: st, old: preSt, vars: post, oldVars: vars, pkg: icon.Pkg, fr: f}
			for _, e := range icon.Ensures {
				u.assume(st, penv.boolExpr(e.Expr))
			}
		}
		return vals
	}
	u.extDefault(key)
	return u.freshResults(st, resTy)
}

func shortName(fn *ssa.Function) string {
	return fn.Name()
}

func hasLoop(fn *ssa.Function) bool {
	for _, b := range fn.Blocks {
		for _, s := range b.Succs {
			if s.Dominates(b) {
				return true
			}
		}
	}
	return false
}

func (u *Unit) runFuncB(fn *ssa.Function, args, binds []Val, st *State, parent *Frame, prefix string) ([]Val, *State) {
	u.pendingBinds = binds
	return u.runFunc(fn, args, st, parent, prefix, false)
}

func (u *Unit) extDefault(key string) {
	if !u.extUsed[key] {
		u.extUsed[key] = true
		u.em.assumes = append(u.em.assumes, "extern-default (no panic, arbitrary result, no visible writes): "+key)
	}
}

func (u *Unit) freshResults(st *State, resTy types.Type) []Val {
	if resTy == nil {
		return nil
	}
	if tup, ok := resTy.(*types.Tuple); ok {
		var out []Val
		for i := 0; i < tup.Len(); i++ {
			out = append(out, u.freshVal("ext", tup.At(i).Type(), st))
		}
		return out
	}
	return []Val{u.freshVal("ext", resTy, st)}
}

func (u *Unit) builtin(f *Frame, st *State, bi *ssa.Builtin, cc *ssa.CallCommon, args []Val, resTy types.Type, pos token.Pos) []Val {
	switch bi.Name() {
	case "len":
		return []Val{{T: u.lenOf(st, args[0]), Ty: types.Typ[types.Int]}}
	case "cap":
		a := args[0]
		switch t := a.Ty.Underlying().(type) {
		case *types.Slice:
			return []Val{{T: fmt.Sprintf("(s_cap %s)", a.T), Ty: types.Typ[types.Int]}}
		case *types.Array:
			return []Val{{T: fmt.Sprint(t.Len()), Ty: types.Typ[types.Int]}}
		}
	case "min", "max":
		r := args[0].T
		op := "<="
		if bi.Name() == "max" {
			op = ">="
		}
		for _, a := range args[1:] {
			r = fmt.Sprintf("(ite (%s %s %s) %s %s)", op, r, a.T, r, a.T)
		}
		return []Val{{T: u.em.define(bi.Name(), u.em.sortOf(args[0].Ty), r), Ty: args[0].Ty}}
	case "copy":
		return []Val{u.copyBuiltin(f, st, args[0], args[1])}
	case "append":
		// call-site obligations for appends to a named slice: `callsite append:<first argument text> requires ...`
		// (vararg0.. are the appended elements when they are listed at the call)
		if u.con != nil && len(u.con.CallSites) > 0 {
			if ce := u.ctx.callExprAt(pos); ce != nil && len(ce.Args) >= 1 {
				name := "append:" + compact(types.ExprString(ce.Args[0]))
				sig := types.NewSignatureType(nil, nil, nil, types.NewTuple(types.NewVar(token.NoPos, nil, "s", args[0].Ty), types.NewVar(token.NoPos, nil, "elems", args[1].Ty)), nil, true)
				u.callSiteObligationsNamed(f, st, name, "", name, []string{"s", "elems"}, sig, args, pos)
			}
		}
		return []Val{u.appendBuiltin(f, st, args[0], args[1], resTy)}
	case "delete":
		mt := args[0].Ty.Underlying().(*types.Map)
		dn, _ := u.mapHeaps(mt)
		ds, _ := u.mapSorts(mt)
		d, _ := u.mapGet(st, mt)
		u.heapTy[dn] = mt
		m := args[0].T
		st.heaps[dn] = u.em.define(dn, ds, fmt.Sprintf("(ite (= %s 0) %s (store %s %s (store (select %s %s) %s false)))", m, d, d, m, d, m, args[1].T))
		return nil
	case "print", "println":
		return nil
	case "ssa:wrapnilchk":
		u.oblige(f, st, "nil", "wrapnilchk", fmt.Sprintf("(not (= %s 0))", args[0].T), pos)
		return []Val{args[0]}
	case "ssa:deferstack":
		return []Val{{T: "0", Ty: resTy}}
	}
	u.errf("unsupported builtin %s", bi.Name())
	return u.freshResults(st, resTy)
}

func (u *Unit) lenOf(st *State, a Val) string {
	switch t := a.Ty.Underlying().(type) {
	case *types.Slice:
		return fmt.Sprintf("(s_len %s)", a.T)
	case *types.Basic:
		return fmt.Sprintf("(strlen %s)", a.T)
	case *types.Array:
		return fmt.Sprint(t.Len())
	case *types.Pointer:
		if arr, ok := t.Elem().Underlying().(*types.Array); ok {
			return fmt.Sprint(arr.Len())
		}
	case *types.Map:
		// the number of keys is a function of the map's current key set (and non-negative)
		fn := "maplen_" + typeID(t)
		ks := u.em.sortOf(t.Key())
		u.em.pre(fmt.Sprintf("(declare-fun %s ((Array %s Bool)) Int)", fn, ks))
		u.em.pre(fmt.Sprintf("(assert (forall ((d (Array %s Bool))) (! (>= (%s d) 0) :pattern ((%s d)))))", ks, fn, fn))
		d, _ := u.mapGet(st, t)
		return fmt.Sprintf("(ite (= %s 0) 0 (%s (select %s %s)))", a.T, fn, d, a.T)
	}
	u.errf("len of %s", a.Ty)
	return "0"
}

// copy(dst, src): memmove semantics on the backing-array heap.
func (u *Unit) copyBuiltin(f *Frame, st *State, dst, src Val) Val {
	sl := dst.Ty.Underlying().(*types.Slice)
	et := sl.Elem()
	var srcLen, srcAt string
	hn := u.em.elemHeapName(et)
	h := u.heapGet(st, hn, et)
	if isString(src.Ty) {
		srcLen = fmt.Sprintf("(strlen %s)", src.T)
		srcAt = fmt.Sprintf("(strAt %s k)", src.T)
	} else {
		srcLen = fmt.Sprintf("(s_len %s)", src.T)
		srcAt = fmt.Sprintf("(select (select %s (s_base %s)) (+ (s_off %s) k))", h, src.T, src.T)
	}
	n := u.em.define("ncopy", "Int", fmt.Sprintf("(ite (<= (s_len %s) %s) (s_len %s) %s)", dst.T, srcLen, dst.T, srcLen))
	arr := u.em.fresh("copied", fmt.Sprintf("(Array Int %s)", u.em.sortOf(et)))
	old := fmt.Sprintf("(select %s (s_base %s))", h, dst.T)
	doff := fmt.Sprintf("(s_off %s)", dst.T)
	var srcAtX string
	if isString(src.Ty) {
		srcAtX = fmt.Sprintf("(strAt %s (- x %s))", src.T, doff)
	} else {
		srcAtX = fmt.Sprintf("(select (select %s (s_base %s)) (+ x (- (s_off %s) %s)))", h, src.T, src.T, doff)
	}
	_ = srcAt
	u.assume(st, fmt.Sprintf("(forall ((x Int)) (! (= (select %s x) (ite (and (<= %s x) (< x (+ %s %s))) %s (select %s x))) :pattern ((select %s x))))", arr, doff, doff, n, srcAtX, old, arr))
	u.heapSet(st, hn, et, fmt.Sprintf("(ite (> %s 0) (store %s (s_base %s) %s) %s)", n, h, dst.T, arr, h))
	return Val{T: n, Ty: types.Typ[types.Int]}
}

func (u *Unit) appendBuiltin(f *Frame, st *State, s, t Val, resTy types.Type) Val {
	sl := s.Ty.Underlying().(*types.Slice)
	et := sl.Elem()
	hn := u.em.elemHeapName(et)
	h := u.heapGet(st, hn, et)
	var k, tAt string
	if isString(t.Ty) {
		k = fmt.Sprintf("(strlen %s)", t.T)
		tAt = fmt.Sprintf("(strAt %s i)", t.T)
	} else {
		k = fmt.Sprintf("(s_len %s)", t.T)
		tAt = fmt.Sprintf("(select (select %s (s_base %s)) (+ (s_off %s) i))", h, t.T, t.T)
	}
	newLen := u.em.define("applen", "Int", fmt.Sprintf("(+ (s_len %s) %s)", s.T, k))
	fits := u.em.define("fits", "Bool", fmt.Sprintf("(and (<= %s (s_cap %s)) (not (= (s_base %s) 0)))", newLen, s.T, s.T))
	fr := u.em.define("ref", "Int", fmt.Sprintf("(+ %s 1)", st.alloc))
	nb := u.em.define("appbase", "Int", ite(fits, fmt.Sprintf("(s_base %s)", s.T), fr))
	st.alloc = u.em.define("alloc", "Int", ite(fits, st.alloc, fr))
	noff := u.em.define("appoff", "Int", ite(fits, fmt.Sprintf("(s_off %s)", s.T), "0"))
	ncap := u.em.fresh("appcap", "Int")
	u.assume(st, fmt.Sprintf("(and (>= %s %s) (=> %s (= %s (s_cap %s))))", ncap, newLen, fits, ncap, s.T))
	arr := u.em.fresh("apparr", fmt.Sprintf("(Array Int %s)", u.em.sortOf(et)))
	oldS := fmt.Sprintf("(select %s (s_base %s))", h, s.T)
	var tAtX string
	if isString(t.Ty) {
		tAtX = fmt.Sprintf("(strAt %s (- x (+ %s (s_len %s))))", t.T, noff, s.T)
	} else {
		tAtX = fmt.Sprintf("(select (select %s (s_base %s)) (+ (s_off %s) (- x (+ %s (s_len %s)))))", h, t.T, t.T, noff, s.T)
	}
	_ = tAt
	// x in [noff, noff+len): old element; [noff+len, noff+newLen): appended; else: unchanged when in place
	u.assume(st, fmt.Sprintf("(forall ((x Int)) (! (=> (and (<= %s x) (< x (+ %s (s_len %s)))) (= (select %s x) (select %s (+ x (- (s_off %s) %s))))) :pattern ((select %s x))))", noff, noff, s.T, arr, oldS, s.T, noff, arr))
	u.assume(st, fmt.Sprintf("(forall ((x Int)) (! (=> (and (<= (+ %s (s_len %s)) x) (< x (+ %s %s))) (= (select %s x) %s)) :pattern ((select %s x))))", noff, s.T, noff, newLen, arr, tAtX, arr))
	u.assume(st, fmt.Sprintf("(=> %s (forall ((x Int)) (! (=> (or (< x %s) (>= x (+ %s %s))) (= (select %s x) (select %s x))) :pattern ((select %s x)))))", fits, noff, noff, newLen, arr, oldS, arr))
	// appended elements of a literal-length argument (the usual append(s, x)): explicit facts
	if !isString(t.Ty) {
		n, ok := u.litLen[t.T]
		if !ok {
			n, ok = literalLen(t.T)
		}
		if ok && n <= 4 {
			for i := 0; i < n; i++ {
				u.assume(st, fmt.Sprintf("(= (select %s (+ %s (s_len %s) %d)) (select (select %s (s_base %s)) (+ (s_off %s) %d)))", arr, noff, s.T, i, h, t.T, t.T, i))
			}
		}
	}
	u.heapSet(st, hn, et, fmt.Sprintf("(store %s %s %s)", h, nb, arr))
	r := u.em.define("appended", "Slice", fmt.Sprintf("(mkSlice %s %s %s %s)", nb, noff, newLen, ncap))
	return Val{T: r, Ty: resTy}
}

// ---------------------------------------------------------------------------
// intrinsics: functions with built-in semantics

func (u *Unit) intrinsic(f *Frame, st *State, key string, callee *ssa.Function, args []Val, resTy types.Type, pos token.Pos) ([]Val, bool) {
	one := func(t string, ty types.Type) ([]Val, bool) {
		return []Val{{T: u.em.define("r", u.em.sortOf(ty), t), Ty: ty}}, true
	}
	f64 := types.Typ[types.Float64]
	name := callee.Name()
	// ghost intrinsics declared in the contract files
	if u.ctx.isGhostFile(callee) {
		switch name {
		case "assert":
			u.oblige(f, st, "assert", u.exprText(pos, "assert"), args[0].T, pos)
			return nil, true
		case "assume":
			u.em.assumes = append(u.em.assumes, "explicit assume in "+u.ctx.funcKey(f.fn)+": "+u.exprText(pos, ""))
			u.assume(st, args[0].T)
			return nil, true
		}
	}
	switch key {
	case "bytes.HasPrefix":
		// prefix given by a frozen global literal: ground comparison
		if ce := u.ctx.callExprAt(pos); ce != nil && len(ce.Args) == 2 {
			if id, ok := ce.Args[1].(*ast.Ident); ok {
				if pkg := u.ctx.pkgOf(f.fn); pkg != nil {
					if o, ok := pkg.Types.Scope().Lookup(id.Name).(*types.Var); ok {
						if g := u.ctx.globalOf(o); g != nil {
							if cs, ok := u.ctx.frozenGlobal(g); ok {
								et := o.Type().Underlying().(*types.Slice).Elem()
								h := u.heapGet(st, u.em.elemHeapName(et), et)
								parts := []string{fmt.Sprintf("(>= (s_len %s) %d)", args[0].T, len(cs))}
								for i := range cs {
									parts = append(parts, fmt.Sprintf("(= (select (select %s (s_base %s)) (+ (s_off %s) %d)) (%s %d))", h, args[0].T, args[0].T, i, u.frozenFn(g), i))
								}
								return one("(and "+strings.Join(parts, " ")+")", types.Typ[types.Bool])
							}
						}
					}
				}
			}
		}
	case "math.Inf":
		return one("INF", f64)
	case "math.Round":
		return one(fmt.Sprintf("(to_real (roundhalf %s))", args[0].T), f64)
	case "math.Floor":
		return one(fmt.Sprintf("(to_real (to_int %s))", args[0].T), f64)
	case "math.Ceil":
		return one(fmt.Sprintf("(to_real (ceilr %s))", args[0].T), f64)
	case "math.Trunc":
		return one(fmt.Sprintf("(to_real (trunc %s))", args[0].T), f64)
	case "math.Abs":
		return one(fmt.Sprintf("(ite (>= %s 0.0) %s (- %s))", args[0].T, args[0].T, args[0].T), f64)
	case "math.Max":
		return one(fmt.Sprintf("(ite (>= %s %s) %s %s)", args[0].T, args[1].T, args[0].T, args[1].T), f64)
	case "math.Min":
		return one(fmt.Sprintf("(ite (<= %s %s) %s %s)", args[0].T, args[1].T, args[0].T, args[1].T), f64)
	case "math.IsInf":
		return one(fmt.Sprintf("(= %s INF)", args[0].T), types.Typ[types.Bool])
	case "sort.Search":
		return u.sortSearch(f, st, args, pos), true
	case "fmt.Errorf", "errors.New":
		if key == "fmt.Errorf" {
			u.errWrapObligation(f, st, pos)
		}
		r := u.em.fresh("err", "Int")
		u.assume(st, fmt.Sprintf("(and (> %s 0) (= (itype %s) %d))", r, r, u.em.typeTag(types.Typ[types.UnsafePointer])))
		u.assume(st, fmt.Sprintf("(= (sentinelId %s) 0)", r))
		u.em.pre("(declare-fun sentinelId (Int) Int)")
		return []Val{{T: r, Ty: resTy}}, true
	case "fmt.Sprintf", "fmt.Sprint", "strconv.Itoa", "strconv.FormatInt":
		return []Val{u.freshVal("str", types.Typ[types.String], st)}, true
	case "(*sync.Mutex).Lock", "(*sync.RWMutex).Lock":
		u.lockOp(f, st, args[0], 2, pos)
		return nil, true
	case "(*sync.RWMutex).RLock":
		u.lockOp(f, st, args[0], 1, pos)
		return nil, true
	case "(*sync.Mutex).Unlock", "(*sync.RWMutex).Unlock", "(*sync.RWMutex).RUnlock":
		u.lockOp(f, st, args[0], 0, pos)
		return nil, true
	case "(*log/slog.Logger).Debug", "(*log/slog.Logger).Info", "(*log/slog.Logger).Warn", "(*log/slog.Logger).Error",
		"log/slog.Debug", "log/slog.Info", "log/slog.Warn", "log/slog.Error", "log/slog.String", "log/slog.Int":
		return u.freshResults(st, resTy), true
	}
	return nil, false
}

func locKey(l *Loc) string {
	var b strings.Builder
	switch l.Kind {
	case LCell:
		fmt.Fprintf(&b, "cell%d", l.Cell.id)
	case LHeap:
		fmt.Fprintf(&b, "heap(%s)@%s", typeID(l.RootTy), l.Ref)
	case LElem:
		fmt.Fprintf(&b, "elem(%s)@%s[%s]", typeID(l.RootTy), l.Ref, l.Idx)
	case LGlobal:
		fmt.Fprintf(&b, "global:%s", l.Global.Name())
	}
	for _, s := range l.Path {
		if s.Field >= 0 {
			b.WriteString("." + s.Name)
		} else {
			b.WriteString("[" + s.Idx + "]")
		}
	}
	return b.String()
}

func (u *Unit) lockOp(f *Frame, st *State, mu Val, mode int, pos token.Pos) {
	if mu.Loc == nil {
		u.lockLog = append(u.lockLog, "lock on untracked mutex")
		return
	}
	k := locKey(mu.Loc)
	if mode == 0 {
		if st.held[k] == 0 && !f.pure {
			u.oblige(f, st, "unlock-unheld", u.exprText(pos, "Unlock"), "false", pos)
		}
		if st.held[k] == 2 {
			if t := u.lockInv(f, st, mu.Loc); t != "" && !f.pure {
				u.oblige(f, st, "lock-inv", u.exprText(pos, "Unlock"), t, pos)
			}
		}
		st.held[k] = 0
		return
	}
	if st.held[k] > 0 && !f.pure {
		u.oblige(f, st, "double-lock", u.exprText(pos, "Lock"), "false", pos)
	}
	st.held[k] = mode
	// acquiring a lock: everything it guards may have been changed by other
	// goroutines since it was last held by us.
	u.havocGuarded(f, st, mu.Loc)
	if t := u.lockInv(f, st, mu.Loc); t != "" {
		u.assume(st, t)
	}
	if u.lockState == nil {
		u.lockState = st.clone()
	}
}

// lockInv evaluates the declared lock invariant of the mutex at location mu.
func (u *Unit) lockInv(f *Frame, st *State, mu *Loc) string {
	if len(mu.Path) == 0 || mu.Kind != LHeap {
		return ""
	}
	owner := *mu
	owner.Path = mu.Path[:len(mu.Path)-1]
	if len(owner.Path) != 0 {
		return ""
	}
	g := u.ctx.guardDecl(owner.RootTy, mu.Path[len(mu.Path)-1].Name)
	if g == nil || g.Inv == nil {
		return ""
	}
	vars := map[string]Val{g.Recv: {T: owner.Ref, Ty: types.NewPointer(owner.RootTy)}}
	env := &SpecEnv{u: u, st: st, old: st, vars: vars, oldVars: vars, pkg: g.Pkg, fr: &Frame{u: u, fn: f.fn, pure: true}}
	return env.boolExpr(g.Inv.Expr)
}

// havocGuarded replaces the guarded fields of the struct owning mutex location mu by fresh values.
func (u *Unit) havocGuarded(f *Frame, st *State, mu *Loc) {
	if len(mu.Path) == 0 || mu.Kind != LHeap {
		return
	}
	owner := *mu
	owner.Path = mu.Path[:len(mu.Path)-1]
	oty := owner.ty()
	gs := u.ctx.guardedFields(oty, mu.Path[len(mu.Path)-1].Name)
	if len(gs) == 0 {
		return
	}
	stt := oty.Underlying().(*types.Struct)
	for i := 0; i < stt.NumFields(); i++ {
		fl := stt.Field(i)
		if !gs[fl.Name()] {
			continue
		}
		l := owner
		l.Path = append(append([]Step{}, owner.Path...), Step{Field: i, Name: fl.Name(), Ty: fl.Type()})
		nv := u.freshVal("acq_"+fl.Name(), fl.Type(), st)
		u.storeLoc(st, &l, nv.T)
		lc := l
		u.frameExtra = append(u.frameExtra, specLoc{loc: &lc})
		// contents of guarded maps / slices are havocked too
		switch t := fl.Type().Underlying().(type) {
		case *types.Map:
			dn, vn := u.mapHeaps(t)
			ds, vs := u.mapSorts(t)
			u.mapGet(st, t)
			st.heaps[dn] = u.em.fresh(dn, ds)
			st.heaps[vn] = u.em.fresh(vn, vs)
			u.frameSkip[dn] = true
			u.frameSkip[vn] = true
		}
	}
}

// checkGuard emits a guarded-by obligation for an access to location l.
func (u *Unit) checkGuard(f *Frame, st *State, l *Loc, write bool, pos token.Pos) {
	if f.pure || len(l.Path) == 0 || l.Kind != LHeap || u.ctx.isGhostFile(u.fn) {
		return
	}
	// find the first field step whose owner struct declares a guard for it
	owner := Loc{Kind: l.Kind, RootTy: l.RootTy, Ref: l.Ref}
	oty := l.RootTy
	for i, s := range l.Path {
		if s.Field < 0 {
			break
		}
		if mu := u.ctx.guardOf(oty, s.Name); mu != "" {
			mk := locKey(&owner) + "." + mu
			held := st.held[mk]
			need := 1
			if write {
				need = 2
			}
			if u.ctx.isCtor(u.fn) {
				return
			}
			kind := "guarded-read"
			if write {
				kind = "guarded-write"
			}
			goal := "true"
			if held < need {
				goal = "false"
			}
			if held < need || true {
				// record as an obligation either way so that it is counted
				name := fmt.Sprintf("%s.%s", typeID(oty), s.Name)
				if goal == "true" {
					u.staticOK(f, st, kind, name)
				} else {
					u.oblige(f, st, kind, name, goal, pos)
				}
			}
			return
		}
		owner.Path = append(owner.Path, l.Path[i])
		oty = s.Ty
	}
}

// staticOK records an obligation that was discharged statically (lock held).
func (u *Unit) staticOK(f *Frame, st *State, kind, text string) {
	name := u.unitName() + "#" + kind + "#" + f.prefix + text
	u.obSeen[name]++
	if c := u.obSeen[name]; c > 1 {
		name = fmt.Sprintf("%s@%d", name, c)
	}
	u.em.obls = append(u.em.obls, &Obligation{Name: name, Kind: kind, At: len(u.em.lines), PC: st.pc, Goal: "true", Func: u.unitName(), Unit: u, Result: "unsat", Solver: "static"})
}

// ---------------------------------------------------------------------------
// modular call by contract

func (u *Unit) contractCall(f *Frame, st *State, con *Contract, callee *ssa.Function, args []Val, resTy types.Type, pos token.Pos, cname string) []Val {
	u.em.usedSpecs[cname] = true
	vars := map[string]Val{}
	names := con.paramNames(callee)
	for i, a := range args {
		if i < len(names) && names[i] != "" && names[i] != "_" {
			vars[names[i]] = a
		}
	}
	pre := st.clone()
	env := &SpecEnv{u: u, st: st, old: pre, vars: vars, oldVars: vars, pkg: con.Pkg, fr: f, callSite: true}
	short := cname
	if i := strings.LastIndex(short, "."); i >= 0 && !strings.Contains(short[i:], ")") {
		short = short[i+1:]
	}
	if !f.pure {
		for _, r := range con.Requires {
			t := env.boolExpr(r.Expr)
			u.oblige(f, st, "pre", short+":"+r.label(), t, pos)
		}
	}
	// reachability of the call itself (thorough tier): the after-call guard below only speaks
	// about what the assumed postcondition adds
	var beforeOb *Obligation
	if vacuityCalls && !f.pure && len(con.Ensures) > 0 && !u.ctx.isGhostFile(u.fn) {
		beforeOb = &Obligation{Name: fmt.Sprintf("%s#vacuity#before-call%d:%s", u.unitName(), u.vacN+1, short), Kind: "vacuity", At: len(u.em.lines), PC: st.pc, Goal: "false", Func: u.unitName(), Unit: u}
		u.em.obls = append(u.em.obls, beforeOb)
	}
	// frame
	u.havocAssigns(f, st, env, con, pos)
	// results
	results := u.freshResults(st, resTy)
	post := map[string]Val{}
	for k, v := range vars {
		post[k] = v
	}
	rn := con.resultNames(callee)
	for i, r := range results {
		if i < len(rn) && rn[i] != "" && rn[i] != "_" {
			post[rn[i]] = r
		}
		post[fmt.Sprintf("ret%d", i)] = r
	}
	if len(results) == 1 {
		post["result"] = results[0]
	}
	penv := &SpecEnv{u: u, st: st, old: pre, vars: post, oldVars: vars, pkg: con.Pkg, fr: f, callSite: true}
	for _, e := range con.Ensures {
		u.assume(st, penv.boolExpr(e.Expr))
	}
	for _, d := range con.Defines {
		// `defines f(args)`: the result is named by an uninterpreted function of the arguments
		// (the callee is deterministic in them) - an assumption, listed in the evidence
		u.assume(st, penv.boolExpr(d.Expr))
		u.extDefault("result of " + cname + " named by an uninterpreted function (deterministic in its arguments): " + d.Text)
	}
	if vacuityCalls && !f.pure && len(con.Ensures) > 0 && !u.ctx.isGhostFile(u.fn) {
		// (not in ghost lemma bodies: there a call whose postcondition contradicts the branch
		// condition is a proof by contradiction, and the unreachable continuation is intended)
		// the assumed postcondition must not make the continuation unreachable
		u.vacN++
		u.em.obls = append(u.em.obls, &Obligation{Name: fmt.Sprintf("%s#vacuity#after-call%d:%s", u.unitName(), u.vacN, short), Kind: "vacuity", At: len(u.em.lines), PC: st.pc, Goal: "false", Func: u.unitName(), Unit: u, Before: beforeOb})
	}
	return results
}

// vacuityCalls: also check reachability after every modular call (thorough tier).
var vacuityCalls bool

// havocAssigns applies the frame of a contract to the state.
func (u *Unit) havocAssigns(f *Frame, st *State, env *SpecEnv, con *Contract, pos token.Pos) {
	if con.AssignsAll {
		for k, t := range u.heapTy {
			if mt, ok := t.(*types.Map); ok && strings.HasPrefix(k, "M_") || strings.HasPrefix(k, "VM_") {
				_ = mt
				continue
			}
			st.heaps[k] = u.em.fresh(k, u.heapSortU(k, t))
		}
		n := u.em.fresh("alloc", "Int")
		u.assume(st, fmt.Sprintf("(>= %s %s)", n, st.alloc))
		st.alloc = n
		for k, t := range u.heapTy {
			if t == nil {
				continue
			}
			if ax := u.heapAxiom(k, st.heaps[k], t, st.alloc); ax != "" {
				u.em.assert(ax)
			}
		}
		return
	}
	if con.AssignsAll {
		u.calleeAllocAny = true
	}
	if len(con.Assigns) > 0 || con.Allocates {
		before := st.alloc
		n := u.em.fresh("alloc", "Int")
		u.assume(st, fmt.Sprintf("(>= %s %s)", n, st.alloc))
		st.alloc = n
		if con.Allocates {
			// the callee may have allocated objects: their contents are not those of the
			// caller's heap maps at these (previously unallocated) addresses. With a typed
			// clause (`allocates T, []U`, checked when the callee is verified: alloc-frame
			// obligations) only the heaps of those types are concerned.
			typed := u.allocHeapNames(con, env)
			if typed == nil {
				u.calleeAllocAny = true
			} else {
				if u.calleeAllocNames == nil {
					u.calleeAllocNames = map[string]bool{}
				}
				for k, t := range typed {
					u.calleeAllocNames[k] = true
					if _, known := u.heapTy[k]; !known {
						u.heapTy[k] = t
					}
				}
			}
			for _, k := range sortedKeys(u.heapTy) {
				t := u.heapTy[k]
				if t == nil || strings.HasPrefix(k, "M_") || strings.HasPrefix(k, "VM_") {
					continue
				}
				if typed != nil {
					if _, in := typed[k]; !in {
						continue
					}
				}
				if _, used := st.heaps[k]; !used {
					// first touched later: handled lazily in heapGet
					if typed == nil {
						st.lazyAll = true
					} else {
						if st.lazySet == nil {
							st.lazySet = map[string]bool{}
						}
						st.lazySet[k] = true
					}
					continue
				}
				h0 := u.heapGet(st, k, t)
				h1 := u.em.fresh(k, u.heapSortU(k, t))
				u.assume(st, fmt.Sprintf("(forall ((r Int)) (! (=> (<= r %s) (= (select %s r) (select %s r))) :pattern ((select %s r))))", before, h1, h0, h1))
				if ax := u.heapAxiom(k, h1, t, st.alloc); ax != "" {
					u.em.assert(ax)
				}
				st.heaps[k] = h1
			}
			if typed == nil {
				st.lazyAll = true
			}
		}
	}
	for _, a := range con.Assigns {
		ls := env.lvalue(a)
		for _, l := range ls {
			switch {
			case l.mapTy != nil:
				dn, vn := u.mapHeaps(l.mapTy)
				ds, vs := u.mapSorts(l.mapTy)
				d, v := u.mapGet(st, l.mapTy)
				u.heapTy[dn], u.heapTy[vn] = l.mapTy, l.mapTy
				ks := u.em.sortOf(l.mapTy.Key())
				fd := u.em.fresh("havocdom", fmt.Sprintf("(Array %s Bool)", ks))
				fv := u.em.fresh("havocval", fmt.Sprintf("(Array %s %s)", ks, u.em.sortOf(l.mapTy.Elem())))
				st.heaps[dn] = u.em.define(dn, ds, fmt.Sprintf("(store %s %s %s)", d, l.mapRef, fd))
				st.heaps[vn] = u.em.define(vn, vs, fmt.Sprintf("(store %s %s %s)", v, l.mapRef, fv))
			case l.whole:
				// whole backing array of a slice
				n := u.em.elemHeapName(l.loc.RootTy)
				h := u.heapGet(st, n, l.loc.RootTy)
				arr := u.em.fresh("havoc", fmt.Sprintf("(Array Int %s)", u.em.sortOf(l.loc.RootTy)))
				if l.off != "" {
					// only the window [off, off+cap) of the backing array may change
					u.assume(st, fmt.Sprintf("(forall ((x Int)) (! (=> (or (< x %s) (>= x (+ %s %s))) (= (select %s x) (select (select %s %s) x))) :pattern ((select %s x))))", l.off, l.off, l.ln, arr, h, l.loc.Ref, arr))
				}
				u.heapSet(st, n, l.loc.RootTy, fmt.Sprintf("(store %s %s %s)", h, l.loc.Ref, arr))
			default:
				nv := u.freshVal("havoc", l.loc.ty(), st)
				u.storeLoc(st, l.loc, nv.T)
			}
		}
	}
}

// allocHeapNames: the heaps named by a typed allocates clause (`T` : objects of type T, `[]T` :
// backing arrays with element type T); nil for an untyped clause.
func (u *Unit) allocHeapNames(con *Contract, env *SpecEnv) map[string]types.Type {
	if len(con.AllocTypes) == 0 {
		return nil
	}
	out := map[string]types.Type{}
	te := &SpecEnv{u: u, st: env.st, old: env.st, vars: map[string]Val{}, oldVars: map[string]Val{}, pkg: con.Pkg, fr: env.fr}
	for _, x := range con.AllocTypes {
		t := te.typeOf(x)
		if t == nil {
			u.errf("allocates: unknown type %s", types.ExprString(x))
			return nil
		}
		if sl, ok := t.(*types.Slice); ok {
			out[u.em.elemHeapName(sl.Elem())] = sl.Elem()
		} else {
			out[u.em.heapName(t)] = t
		}
	}
	return out
}

// closureTerm evaluates a pure closure on symbolic arguments to an SMT term (no
// definitions, no obligations): used under quantifiers.
func (u *Unit) closureTerm(f *Frame, st *State, clo Val, args []Val) string {
	if clo.Fn == nil {
		u.errf("closure value not statically known")
		return "false"
	}
	save := u.em.noDefine
	u.em.noDefine = true
	nf := &Frame{u: u, fn: f.fn, depth: f.depth, pure: true}
	u.pendingBinds = clo.Binds
	ne := len(u.errs)
	res, _ := u.runFunc(clo.Fn, args, st.clone(), nf, "", false)
	u.em.noDefine = save
	if len(u.errs) > ne || len(res) != 1 || res[0].T == "" {
		u.errf("closure %s is not a simple pure expression", clo.Fn.Name())
		return "false"
	}
	return res[0].T
}

// sort.Search(n, f): smallest index in [0,n] from which f holds, provided f is monotone
// on [0,n) (generated as an obligation).
func (u *Unit) sortSearch(f *Frame, st *State, args []Val, pos token.Pos) []Val {
	n := args[0]
	clo := args[1]
	intT := types.Typ[types.Int]
	u.qn++
	bi := fmt.Sprintf("si_q%d", u.qn)
	u.qn++
	bj := fmt.Sprintf("sj_q%d", u.qn)
	fi := u.closureTerm(f, st, clo, []Val{{T: bi, Ty: intT}})
	fj := u.closureTerm(f, st, clo, []Val{{T: bj, Ty: intT}})
	mono := fmt.Sprintf("(forall ((%s Int) (%s Int)) (=> (and (<= 0 %s) (< %s %s) (< %s %s) %s) %s))", bi, bj, bi, bi, bj, bj, n.T, fi, fj)
	u.oblige(f, st, "search-monotone", u.exprText(pos, "sort.Search"), mono, pos)
	k := u.em.fresh("found", "Int")
	u.assume(st, fmt.Sprintf("(and (<= 0 %s) (<= %s %s))", k, k, n.T))
	body, bv, lo, hi := rebase(not(fi), bi, "0", k)
	u.assume(st, fmt.Sprintf("(forall ((%s Int)) (=> (and (<= %s %s) (< %s %s)) %s))", bv, lo, bv, bv, hi, body))
	fk := u.closureTerm(f, st, clo, []Val{{T: k, Ty: intT}})
	u.assume(st, implies(fmt.Sprintf("(< %s %s)", k, n.T), fk))
	return []Val{{T: k, Ty: intT}}
}

// fieldFuncKey: "field:T.f" when v is the value of func-typed field f of struct type T.
func fieldFuncKey(v ssa.Value) string {
	un, ok := v.(*ssa.UnOp)
	if !ok || un.Op != token.MUL {
		return ""
	}
	fa, ok := un.X.(*ssa.FieldAddr)
	if !ok {
		return ""
	}
	pt, ok := fa.X.Type().Underlying().(*types.Pointer)
	if !ok {
		return ""
	}
	st, ok := pt.Elem().Underlying().(*types.Struct)
	if !ok {
		return ""
	}
	return "field:" + typeShort(pt.Elem()) + "." + st.Field(fa.Field).Name()
}

// literalLen: length of a slice term built as (mkSlice base off <numeral> cap).
func literalLen(t string) (int, bool) {
	if !strings.HasPrefix(t, "(mkSlice ") {
		return 0, false
	}
	parts := strings.Fields(strings.TrimSuffix(t, ")"))
	if len(parts) < 5 {
		return 0, false
	}
	// fields: (mkSlice base off len cap  -- base/off may be compound; take the numeral before the last field
	n := 0
	if _, err := fmt.Sscanf(parts[len(parts)-2], "%d", &n); err != nil {
		return 0, false
	}
	return n, true
}

// callSiteObligations: wiring obligations declared by the function under contract for calls it makes.
func (u *Unit) callSiteObligations(f *Frame, st *State, callee *ssa.Function, key string, args []Val, pos token.Pos) {
	short := callee.Name()
	lk := ""
	if callee.Pkg != nil {
		lk = u.ctx.localKey(callee)
	}
	var pn []string
	for _, p := range callee.Params {
		pn = append(pn, p.Name())
	}
	u.callSiteObligationsNamed(f, st, short, lk, key, pn, callee.Signature, args, pos)
}

// callSiteObligationsNamed: obligations declared with `callsite <callee> requires` in the
// contract of the function being verified, for a call of the named callee (static call,
// closure or interface method).  Besides arg_<param> / argN, the elements of a variadic
// argument list built at the call are available as vararg0, vararg1, ...
func (u *Unit) callSiteObligationsNamed(f *Frame, st *State, short, lk, key string, pnames []string, sig *types.Signature, args []Val, pos token.Pos) {
	if f.depth != 0 || f.pure || u.con == nil || len(u.con.CallSites) == 0 || f.fn != u.fn {
		return
	}
	for _, cs := range u.con.CallSites {
		if cs.Callee != short && cs.Callee != lk && cs.Callee != key {
			continue
		}
		f.envPos = pos
		env := u.loopEnv(f, st, f.fn, -1)
		f.envPos = token.NoPos
		vars := map[string]Val{}
		for k, v := range env.vars {
			vars[k] = v
		}
		for i, p := range pnames {
			if i < len(args) && p != "" && p != "_" {
				vars["arg_"+p] = args[i]
				if _, clash := vars[p]; !clash {
					vars[p] = args[i]
				}
			}
		}
		for i, a := range args {
			vars[fmt.Sprintf("arg%d", i)] = a
		}
		if sig != nil && sig.Variadic() && len(args) > 0 {
			last := args[len(args)-1]
			if sl, ok := last.Ty.Underlying().(*types.Slice); ok && last.T != "" {
				h := u.heapGet(st, u.em.elemHeapName(sl.Elem()), sl.Elem())
				for k := 0; k < 8; k++ {
					vars[fmt.Sprintf("vararg%d", k)] = Val{T: fmt.Sprintf("(select (select %s (s_base %s)) (+ (s_off %s) %d))", h, last.T, last.T, k), Ty: sl.Elem()}
				}
				vars["nvarargs"] = Val{T: fmt.Sprintf("(s_len %s)", last.T), Ty: types.Typ[types.Int]}
			}
		}
		env.vars = vars
		u.oblige(f, st, "callsite", short+":"+cs.Clause.label(), env.boolExpr(cs.Clause.Expr), pos)
	}
}

// errWrapObligation: an error passed to fmt.Errorf must be wrapped with %w, otherwise its
// identity (errors.Is / errors.As in the HTTP handler: 404/410/425) is lost.
func (u *Unit) errWrapObligation(f *Frame, st *State, pos token.Pos) {
	if f.pure || f.depth != 0 {
		return
	}
	// find the call instruction at pos in the current function
	for _, b := range f.fn.Blocks {
		for _, ins := range b.Instrs {
			call, ok := ins.(*ssa.Call)
			if !ok || call.Pos() != pos {
				continue
			}
			cc := call.Common()
			if len(cc.Args) < 2 {
				return
			}
			fc, ok := cc.Args[0].(*ssa.Const)
			if !ok || fc.Value == nil {
				return
			}
			format := strings.ReplaceAll(constantString(fc), "%%", "")
			nW := strings.Count(format, "%w")
			// count error-typed varargs
			nErr := 0
			sl, ok := cc.Args[1].(*ssa.Slice)
			if !ok {
				return
			}
			arr, ok := sl.X.(*ssa.Alloc)
			if !ok || arr.Referrers() == nil {
				return
			}
			for _, r := range *arr.Referrers() {
				ia, ok := r.(*ssa.IndexAddr)
				if !ok || ia.Referrers() == nil {
					continue
				}
				for _, r2 := range *ia.Referrers() {
					st2, ok := r2.(*ssa.Store)
					if !ok {
						continue
					}
					if ci, ok := st2.Val.(*ssa.ChangeInterface); ok && isErrorType(ci.X.Type()) {
						nErr++
					}
				}
			}
			if nErr == 0 {
				return
			}
			goal := "true"
			if nW < nErr {
				goal = "false"
			}
			if goal == "true" {
				u.staticOK(f, st, "errwrap", u.exprText(pos, "Errorf"))
			} else {
				u.oblige(f, st, "errwrap", u.exprText(pos, "Errorf"), "false", pos)
			}
			return
		}
	}
}

func constantString(c *ssa.Const) string {
	if c.Value == nil {
		return ""
	}
	s := c.Value.ExactString()
	if len(s) >= 2 && s[0] == '"' {
		if us, err := strconv.Unquote(s); err == nil {
			return us
		}
	}
	return s
}

func isErrorType(t types.Type) bool {
	n, ok := t.(*types.Named)
	return ok && n.Obj().Pkg() == nil && n.Obj().Name() == "error"
}

// isResponseWriter: the static type is net/http.ResponseWriter.
func isResponseWriter(t types.Type) bool {
	n, ok := t.(*types.Named)
	return ok && n.Obj().Pkg() != nil && n.Obj().Pkg().Path() == "net/http" && n.Obj().Name() == "ResponseWriter"
}

// answerEvent: ghost protocol of an http.ResponseWriter along the path (kind single-answer):
// the status is decided once - no WriteHeader / http.Error after a status, an error answer or body
// bytes were sent, and no body bytes after an error answer (the usual cause is a missing return
// after http.Error). States: 0 nothing sent, 1 body written, 2 status sent, 3 error answer sent.
func (u *Unit) answerEvent(f *Frame, st *State, w, ev string, pos token.Pos) {
	if f.pure || f.depth != 0 {
		return
	}
	cur := "0"
	if v, ok := st.answered[w]; ok {
		cur = v
	}
	if st.answered == nil {
		st.answered = map[string]string{}
	}
	switch ev {
	case "Error":
		u.oblige(f, st, "single-answer", u.exprText(pos, "http.Error"), fmt.Sprintf("(= %s 0)", cur), pos)
		st.answered[w] = "3"
	case "WriteHeader":
		u.oblige(f, st, "single-answer", u.exprText(pos, "WriteHeader"), fmt.Sprintf("(= %s 0)", cur), pos)
		st.answered[w] = "2"
	case "Write":
		u.oblige(f, st, "single-answer", u.exprText(pos, "Write"), fmt.Sprintf("(not (= %s 3))", cur), pos)
		st.answered[w] = u.em.define("answered", "Int", fmt.Sprintf("(ite (= %s 0) 1 %s)", cur, cur))
	}
}

// noteCalled records, for the names a contract asks about with called(F), that a call of F is executed.
func (u *Unit) noteCalled(st *State, cc *ssa.CallCommon) {
	if u.calledNames == nil {
		u.calledNames = map[string]bool{}
		if u.con != nil {
			var exprs []ast.Expr
			for _, c := range u.con.Requires {
				exprs = append(exprs, c.Expr)
			}
			for _, c := range u.con.Ensures {
				exprs = append(exprs, c.Expr)
			}
			for _, c := range u.con.CallSites {
				exprs = append(exprs, c.Clause.Expr)
			}
			for _, c := range u.con.Exits {
				exprs = append(exprs, c.Clause.Expr)
			}
			for _, c := range u.con.StoreSites {
				exprs = append(exprs, c.Clause.Expr)
			}
			for _, l := range u.con.Loops {
				for _, c := range l.Invariants {
					exprs = append(exprs, c.Expr)
				}
			}
			for _, x := range exprs {
				if x == nil {
					continue
				}
				ast.Inspect(x, func(n ast.Node) bool {
					if ce, ok := n.(*ast.CallExpr); ok {
						if id, ok := ce.Fun.(*ast.Ident); ok && id.Name == "called" && len(ce.Args) == 1 {
							switch a := ce.Args[0].(type) {
							case *ast.Ident:
								u.calledNames[a.Name] = true
							case *ast.SelectorExpr:
								u.calledNames[a.Sel.Name] = true
							}
						}
					}
					return true
				})
			}
		}
	}
	if len(u.calledNames) == 0 {
		return
	}
	name := ""
	if cc.IsInvoke() {
		name = cc.Method.Name()
	} else if callee := cc.StaticCallee(); callee != nil {
		name = callee.Name()
	}
	if name == "" || !u.calledNames[name] {
		return
	}
	if st.answered == nil {
		st.answered = map[string]string{}
	}
	st.answered["called:"+name] = "1"
}
