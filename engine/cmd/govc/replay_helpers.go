package main

import (
	"fmt"
	"go/types"
)

// replayHelpers is the fixed part of every generated replay test.
const replayHelpers = `func TestGovcReplay(govcT *testing.T) {
	reproduced, detail := false, "no candidate input"
	for i, f := range govcCandidates {
		govcCloneOrig = map[uintptr]uintptr{}
		govcCloneMemo = map[uintptr]reflect.Value{}
		r, d := f()
		if r || i == 0 {
			reproduced, detail = r, d
			if len(govcCandidates) > 1 {
				detail = fmt.Sprintf("[candidate %d] %s", i, d)
			}
		}
		if r {
			break
		}
	}
	detail = strings.Join(strings.Fields(detail), " ")
	if len(detail) > 1500 {
		detail = detail[:1500] + "..."
	}
	fmt.Printf("\nGOVC-REPLAY: reproduced=%v detail=%s\n", reproduced, detail)
}

// govcEval evaluates a specification expression, catching panics (e.g. an index
// out of range inside the expression).
func govcEval(f func() bool) (ok bool, panicked any) {
	defer func() {
		if r := recover(); r != nil {
			ok, panicked = false, r
		}
	}()
	return f(), nil
}

func govcShow(x any) string {
	s := fmt.Sprintf("%+v", x)
	if len(s) > 300 {
		s = s[:300] + "..."
	}
	return s
}

func govcForall(lo, hi int, f func(int) bool) bool {
	for i := lo; i < hi; i++ {
		if !f(i) {
			return false
		}
	}
	return true
}

func govcExists(lo, hi int, f func(int) bool) bool {
	for i := lo; i < hi; i++ {
		if f(i) {
			return true
		}
	}
	return false
}

func govcCond[T any](c bool, a, b T) T {
	if c {
		return a
	}
	return b
}

func govcMathDiv(a, b int) int {
	q := a / b
	if a%b != 0 && (a%b < 0) != (b < 0) {
		q--
	}
	return q
}

func govcMathMod(a, b int) int { return a - b*govcMathDiv(a, b) }

func govcIsNil(x any) bool { return govcNilV(reflect.ValueOf(x)) }

func govcNilV(v reflect.Value) bool {
	if !v.IsValid() {
		return true
	}
	switch v.Kind() {
	case reflect.Ptr, reflect.Map, reflect.Slice, reflect.Chan, reflect.Func, reflect.Interface, reflect.UnsafePointer:
		return v.IsNil()
	}
	return false
}

// govcCloneOrig maps the address of a cloned object (pre-state snapshot) to the
// address of the original, so that reference equality between old(...) and current
// values means "same object".
var govcCloneOrig = map[uintptr]uintptr{}
var govcCloneMemo = map[uintptr]reflect.Value{}

func govcNorm(p uintptr) uintptr {
	if o, ok := govcCloneOrig[p]; ok {
		return o
	}
	return p
}

func govcRW(v reflect.Value) reflect.Value {
	if v.CanAddr() {
		return reflect.NewAt(v.Type(), unsafe.Pointer(v.UnsafeAddr())).Elem()
	}
	return v
}

// govcClone makes a deep copy of x (pointers, slices up to their capacity, maps,
// arrays, structs including unexported fields); aliasing between pointers is kept.
func govcClone[T any](x T) T {
	src := reflect.ValueOf(&x).Elem()
	dst := reflect.New(src.Type())
	govcCopy(dst.Elem(), src)
	return *(dst.Interface().(*T))
}

func govcCopy(dst, src reflect.Value) {
	dst, src = govcRW(dst), govcRW(src)
	switch src.Kind() {
	case reflect.Ptr:
		if src.IsNil() {
			return
		}
		p := src.Pointer()
		if c, ok := govcCloneMemo[p]; ok && c.Type() == src.Type() {
			dst.Set(c)
			return
		}
		n := reflect.New(src.Type().Elem())
		govcCloneMemo[p] = n
		govcCloneOrig[n.Pointer()] = p
		govcCopy(n.Elem(), src.Elem())
		dst.Set(n)
	case reflect.Slice:
		if src.IsNil() {
			return
		}
		full := src.Slice3(0, src.Cap(), src.Cap())
		n := reflect.MakeSlice(src.Type(), src.Cap(), src.Cap())
		for i := 0; i < full.Len(); i++ {
			govcCopy(n.Index(i), full.Index(i))
		}
		if src.Cap() > 0 {
			govcCloneOrig[n.Pointer()] = src.Pointer()
		}
		dst.Set(n.Slice3(0, src.Len(), src.Cap()))
	case reflect.Map:
		if src.IsNil() {
			return
		}
		n := reflect.MakeMapWithSize(src.Type(), src.Len())
		govcCloneOrig[n.Pointer()] = src.Pointer()
		it := src.MapRange()
		for it.Next() {
			v := reflect.New(src.Type().Elem()).Elem()
			tmp := reflect.New(src.Type().Elem()).Elem()
			tmp.Set(it.Value())
			govcCopy(v, tmp)
			n.SetMapIndex(it.Key(), v)
		}
		dst.Set(n)
	case reflect.Struct:
		for i := 0; i < src.NumField(); i++ {
			govcCopy(dst.Field(i), src.Field(i))
		}
	case reflect.Array:
		for i := 0; i < src.Len(); i++ {
			govcCopy(dst.Index(i), src.Index(i))
		}
	default:
		dst.Set(src)
	}
}

func govcNum(v reflect.Value) (neg bool, mag uint64, f float64, kind int) {
	switch v.Kind() {
	case reflect.Int, reflect.Int8, reflect.Int16, reflect.Int32, reflect.Int64:
		i := v.Int()
		if i < 0 {
			return true, uint64(-(i + 1)) + 1, float64(i), 1
		}
		return false, uint64(i), float64(i), 1
	case reflect.Uint, reflect.Uint8, reflect.Uint16, reflect.Uint32, reflect.Uint64, reflect.Uintptr:
		return false, v.Uint(), float64(v.Uint()), 1
	case reflect.Float32, reflect.Float64:
		return false, 0, v.Float(), 2
	}
	return false, 0, 0, 0
}

// govcEq is the equality of the specification language: numbers by value, references
// by identity (modulo pre-state snapshots), slices by (array, offset, len, cap),
// structs and arrays component-wise.
func govcEq(a, b any) bool { return govcEqV(reflect.ValueOf(a), reflect.ValueOf(b)) }

func govcEqV(a, b reflect.Value) bool {
	for a.IsValid() && a.Kind() == reflect.Interface {
		a = a.Elem()
	}
	for b.IsValid() && b.Kind() == reflect.Interface {
		b = b.Elem()
	}
	if !a.IsValid() || !b.IsValid() {
		return govcNilV(a) && govcNilV(b)
	}
	an, am, af, ak := govcNum(a)
	bn, bm, bf, bk := govcNum(b)
	if ak != 0 && bk != 0 {
		if ak == 1 && bk == 1 {
			return an == bn && am == bm
		}
		return af == bf
	}
	if a.Kind() != b.Kind() {
		return false
	}
	switch a.Kind() {
	case reflect.Bool:
		return a.Bool() == b.Bool()
	case reflect.String:
		return a.String() == b.String()
	case reflect.Complex64, reflect.Complex128:
		return a.Complex() == b.Complex()
	case reflect.Ptr, reflect.UnsafePointer, reflect.Chan, reflect.Func, reflect.Map:
		if a.IsNil() || b.IsNil() {
			return a.IsNil() && b.IsNil()
		}
		return govcNorm(a.Pointer()) == govcNorm(b.Pointer())
	case reflect.Slice:
		if a.IsNil() || b.IsNil() {
			return a.IsNil() && b.IsNil()
		}
		return a.Len() == b.Len() && a.Cap() == b.Cap() && (a.Cap() == 0 || govcNorm(a.Pointer()) == govcNorm(b.Pointer()))
	case reflect.Struct:
		if a.Type() != b.Type() {
			return false
		}
		for i := 0; i < a.NumField(); i++ {
			if !govcEqV(a.Field(i), b.Field(i)) {
				return false
			}
		}
		return true
	case reflect.Array:
		if a.Len() != b.Len() {
			return false
		}
		for i := 0; i < a.Len(); i++ {
			if !govcEqV(a.Index(i), b.Index(i)) {
				return false
			}
		}
		return true
	}
	return false
}
`

const replayNiceMax = 600

// addNice adds soft "prefer small, readable inputs" constraints for a parameter.
// They are only used in the first solver attempts and dropped if unsatisfiable.
func (m *rmodel) addNice(term string, ty types.Type, depth int) {
	if len(m.nice) > replayNiceMax {
		return
	}
	add := func(format string, a ...any) { m.nice = append(m.nice, "(assert "+fmt.Sprintf(format, a...)+")") }
	switch t := ty.Underlying().(type) {
	case *types.Basic:
		switch {
		case t.Info()&types.IsString != 0:
			add("(<= (strlen %s) 8)", term)
			for i := 0; i < 8; i++ {
				add("(=> (< %d (strlen %s)) (and (<= 32 (strAt %s %d)) (<= (strAt %s %d) 126)))", i, term, term, i, term, i)
			}
		case t.Info()&types.IsInteger != 0:
			add("(and (<= (- 1048576) %s) (<= %s 1048576))", term, term)
		case t.Info()&types.IsFloat != 0:
			add("(and (<= (- 1048576.0) %s) (<= %s 1048576.0))", term, term)
		}
	case *types.Slice:
		add("(and (= (s_off %s) 0) (<= (s_len %s) 8) (<= (s_cap %s) (+ (s_len %s) 4)))", term, term, term, term)
		en := m.u.em.elemHeapName(t.Elem())
		if depth < 2 && m.declared[en+"_init"] {
			for k := 0; k < 4; k++ {
				m.addNice(fmt.Sprintf("(select (select %s_init (s_base %s)) %d)", en, term, k), t.Elem(), depth+1)
			}
		}
	case *types.Pointer:
		hn := m.u.em.heapName(t.Elem())
		if depth < 2 && m.declared[hn+"_init"] {
			m.addNice(fmt.Sprintf("(select %s_init %s)", hn, term), t.Elem(), depth+1)
		}
	case *types.Struct:
		sn := m.u.em.sortOf(ty)
		for i := 0; i < t.NumFields(); i++ {
			f := t.Field(i)
			m.addNice(fmt.Sprintf("(%s %s)", m.u.em.fieldSel(sn, f.Name(), i), term), f.Type(), depth)
		}
	}
}

// addStrDistinct: distinct abstract strings should also differ as byte sequences
// (the Str sort has no extensionality axiom).
func (m *rmodel) addStrDistinct(terms []string) {
	terms = append([]string{"str_empty"}, terms...)
	for i := 0; i < len(terms); i++ {
		for j := i + 1; j < len(terms); j++ {
			a, b := terms[i], terms[j]
			alts := fmt.Sprintf("(= %s %s) (not (= (strlen %s) (strlen %s)))", a, b, a, b)
			for k := 0; k < 4; k++ {
				alts += fmt.Sprintf(" (and (< %d (strlen %s)) (not (= (strAt %s %d) (strAt %s %d))))", k, a, a, k, b, k)
			}
			m.nice = append(m.nice, "(assert (or "+alts+"))")
		}
	}
}
