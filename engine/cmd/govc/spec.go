package main

// Translation of specification expressions (Go AST) to SMT over a symbolic state.
// Specification expressions follow Go semantics (unsigned wrap-around, truncated
// division) so that ghost functions can also be executed by replay tests.

import (
	"fmt"
	"go/ast"
	"go/constant"
	"go/token"
	"go/types"
	"strings"

	"golang.org/x/tools/go/packages"
	"golang.org/x/tools/go/ssa"
)

type SpecEnv struct {
	u          *Unit
	st         *State
	old        *State
	vars       map[string]Val
	oldVars    map[string]Val
	pkg        *packages.Package
	fr         *Frame
	depth      int
	bound      int
	boundNames map[string]bool
	atExit     bool // evaluating the verified function's own postcondition
	callSite   bool // evaluating a callee's contract at a call site
}

type specLoc struct {
	loc     *Loc
	whole   bool // whole backing array (s[*])
	mapRef  string
	mapTy   *types.Map
	off, ln string // window of a wholly assigned slice
}

var untypedInt = types.Typ[types.UntypedInt]
var untypedFloat = types.Typ[types.UntypedFloat]

func (e *SpecEnv) errf(format string, a ...any) {
	e.u.errf("spec: "+format, a...)
}

func (e *SpecEnv) with(vars map[string]Val) *SpecEnv {
	n := *e
	n.vars = vars
	return &n
}

func (e *SpecEnv) boolExpr(x ast.Expr) string {
	v := e.expr(x)
	if v.T == "" {
		return "true"
	}
	return v.T
}

func isUntyped(t types.Type) bool {
	b, ok := t.(*types.Basic)
	return ok && b.Info()&types.IsUntyped != 0
}

// unify converts untyped constants to the type of the other operand.
func (e *SpecEnv) unify(a, b Val) (Val, Val, types.Type) {
	switch {
	case isUntyped(a.Ty) && !isUntyped(b.Ty):
		a = e.coerce(a, b.Ty)
	case isUntyped(b.Ty) && !isUntyped(a.Ty):
		b = e.coerce(b, a.Ty)
	case isUntyped(a.Ty) && isUntyped(b.Ty):
		if a.Ty == untypedFloat || b.Ty == untypedFloat {
			a, b = e.coerce(a, types.Typ[types.Float64]), e.coerce(b, types.Typ[types.Float64])
			a.Ty, b.Ty = untypedFloat, untypedFloat
		}
	}
	return a, b, a.Ty
}

func (e *SpecEnv) coerce(v Val, to types.Type) Val {
	if isUntyped(v.Ty) {
		if isFloat(to) && v.Ty != untypedFloat {
			if isNumeral(v.T) {
				return Val{T: v.T + ".0", Ty: to}
			}
			return Val{T: "(to_real " + v.T + ")", Ty: to}
		}
		if v.Ty == types.Typ[types.UntypedNil] {
			return Val{T: e.u.em.zeroOf(to), Ty: to}
		}
		return Val{T: v.T, Ty: to}
	}
	return v
}

func (e *SpecEnv) expr(x ast.Expr) Val {
	switch n := x.(type) {
	case *ast.ParenExpr:
		return e.expr(n.X)
	case *ast.BasicLit:
		switch n.Kind {
		case token.INT:
			v := constant.MakeFromLiteral(n.Value, token.INT, 0)
			return Val{T: intLit(v), Ty: untypedInt}
		case token.FLOAT:
			v := constant.MakeFromLiteral(n.Value, token.FLOAT, 0)
			return Val{T: realLit(v), Ty: untypedFloat}
		case token.STRING:
			v := constant.MakeFromLiteral(n.Value, token.STRING, 0)
			return Val{T: e.u.em.strLit(constant.StringVal(v)), Ty: types.Typ[types.String]}
		case token.CHAR:
			v := constant.MakeFromLiteral(n.Value, token.CHAR, 0)
			return Val{T: intLit(v), Ty: untypedInt}
		}
	case *ast.Ident:
		return e.ident(n)
	case *ast.UnaryExpr:
		switch n.Op {
		case token.NOT:
			return Val{T: not(e.expr(n.X).T), Ty: types.Typ[types.Bool]}
		case token.SUB:
			v := e.expr(n.X)
			if isUnsigned(v.Ty) {
				return Val{T: fmt.Sprintf("(mod (- %s) %s)", v.T, pow2(intBits(v.Ty))), Ty: v.Ty}
			}
			return Val{T: fmt.Sprintf("(- %s)", v.T), Ty: v.Ty}
		case token.ADD:
			return e.expr(n.X)
		case token.AND:
			// &x : only as pointer to a location
			ls := e.lvalue(n.X)
			if len(ls) == 1 {
				return Val{Ty: types.NewPointer(ls[0].loc.ty()), Loc: ls[0].loc}
			}
		}
	case *ast.StarExpr:
		p := e.expr(n.X)
		pt, ok := p.Ty.Underlying().(*types.Pointer)
		if !ok {
			e.errf("deref of non-pointer %s", p.Ty)
			return Val{T: "0", Ty: types.Typ[types.Int]}
		}
		if p.Loc != nil {
			return Val{T: e.u.loadLoc(e.st, p.Loc), Ty: pt.Elem()}
		}
		l := &Loc{Kind: LHeap, RootTy: pt.Elem(), Ref: p.T}
		return Val{T: e.u.loadLoc(e.st, l), Ty: pt.Elem()}
	case *ast.BinaryExpr:
		return e.binary(n)
	case *ast.SelectorExpr:
		return e.selector(n)
	case *ast.IndexExpr:
		if id, ok := n.X.(*ast.Ident); ok && e.pkg != nil {
			if _, shadow := e.vars[id.Name]; !shadow {
				if o, ok := e.pkg.Types.Scope().Lookup(id.Name).(*types.Var); ok {
					if g := e.u.ctx.globalOf(o); g != nil {
						if _, ok := e.u.ctx.frozenGlobal(g); ok {
							i := e.coerce(e.expr(n.Index), types.Typ[types.Int])
							return Val{T: fmt.Sprintf("(%s %s)", e.u.frozenFn(g), i.T), Ty: o.Type().Underlying().(*types.Slice).Elem()}
						}
					}
				}
			}
		}
		a := e.expr(n.X)
		i := e.coerce(e.expr(n.Index), types.Typ[types.Int])
		switch t := a.Ty.Underlying().(type) {
		case *types.Slice:
			h := e.u.heapGet(e.st, e.u.em.elemHeapName(t.Elem()), t.Elem())
			return Val{T: fmt.Sprintf("(select (select %s (s_base %s)) (+ (s_off %s) %s))", h, a.T, a.T, i.T), Ty: t.Elem()}
		case *types.Array:
			return Val{T: fmt.Sprintf("(select %s %s)", a.T, i.T), Ty: t.Elem()}
		case *types.Basic:
			return Val{T: fmt.Sprintf("(strAt %s %s)", a.T, i.T), Ty: types.Typ[types.Uint8]}
		case *types.Map:
			_, v := e.u.mapGet(e.st, t)
			d, _ := e.u.mapGet(e.st, t)
			k := e.coerce(i, t.Key())
			in := fmt.Sprintf("(and (not (= %s 0)) (select (select %s %s) %s))", a.T, d, a.T, k.T)
			return Val{T: ite(in, fmt.Sprintf("(select (select %s %s) %s)", v, a.T, k.T), e.u.em.zeroOf(t.Elem())), Ty: t.Elem()}
		case *types.Pointer:
			if arr, ok := t.Elem().Underlying().(*types.Array); ok {
				h := e.u.heapGet(e.st, e.u.em.elemHeapName(arr.Elem()), arr.Elem())
				return Val{T: fmt.Sprintf("(select (select %s %s) %s)", h, a.T, i.T), Ty: arr.Elem()}
			}
		}
		e.errf("index on %s", a.Ty)
	case *ast.SliceExpr:
		a := e.expr(n.X)
		if _, ok := a.Ty.Underlying().(*types.Slice); ok {
			lo, hi := "0", fmt.Sprintf("(s_len %s)", a.T)
			if n.Low != nil {
				lo = e.expr(n.Low).T
			}
			if n.High != nil {
				hi = e.expr(n.High).T
			}
			return Val{T: fmt.Sprintf("(mkSlice (s_base %s) (+ (s_off %s) %s) (- %s %s) (- (s_cap %s) %s))", a.T, a.T, lo, hi, lo, a.T, lo), Ty: a.Ty}
		}
		e.errf("slice expr on %s", a.Ty)
	case *ast.CallExpr:
		return e.callExpr(n)
	case *ast.TypeAssertExpr:
		v := e.expr(n.X)
		ty := e.typeOf(n.Type)
		if ty == nil {
			break
		}
		_, unbox := e.u.em.boxFn(ty)
		return Val{T: fmt.Sprintf("(%s %s)", unbox, v.T), Ty: ty}
	case *ast.CompositeLit:
		ty := e.typeOf(n.Type)
		if st, ok := ty.Underlying().(*types.Struct); ok {
			vals := make([]string, st.NumFields())
			for i := range vals {
				vals[i] = e.u.em.zeroOf(st.Field(i).Type())
			}
			for i, el := range n.Elts {
				if kv, ok := el.(*ast.KeyValueExpr); ok {
					name := kv.Key.(*ast.Ident).Name
					for j := 0; j < st.NumFields(); j++ {
						if st.Field(j).Name() == name {
							vals[j] = e.coerce(e.expr(kv.Value), st.Field(j).Type()).T
						}
					}
				} else {
					vals[i] = e.coerce(e.expr(el), st.Field(i).Type()).T
				}
			}
			sn := e.u.em.sortOf(ty)
			if len(vals) == 0 {
				return Val{T: "mk_" + sn, Ty: ty}
			}
			return Val{T: fmt.Sprintf("(mk_%s %s)", sn, strings.Join(vals, " ")), Ty: ty}
		}
	}
	e.errf("unsupported expression %T %s", x, exprString(x))
	return Val{T: "0", Ty: types.Typ[types.Int]}
}

func exprString(x ast.Expr) string {
	return types.ExprString(x)
}

func (e *SpecEnv) ident(n *ast.Ident) Val {
	switch n.Name {
	case "true":
		return Val{T: "true", Ty: types.Typ[types.Bool]}
	case "false":
		return Val{T: "false", Ty: types.Typ[types.Bool]}
	case "nil":
		return Val{T: "0", Ty: types.Typ[types.UntypedNil]}
	}
	if v, ok := e.vars[n.Name]; ok {
		return v
	}
	if e.pkg != nil {
		if obj := e.pkg.Types.Scope().Lookup(n.Name); obj != nil {
			return e.object(obj)
		}
	}
	e.errf("unknown identifier %s", n.Name)
	return Val{T: "0", Ty: types.Typ[types.Int]}
}

func (e *SpecEnv) object(obj types.Object) Val {
	switch o := obj.(type) {
	case *types.Const:
		t := o.Type()
		switch {
		case isBool(t):
			if constant.BoolVal(o.Val()) {
				return Val{T: "true", Ty: t}
			}
			return Val{T: "false", Ty: t}
		case isInteger(t) || t == untypedInt || t == types.Typ[types.UntypedRune]:
			return Val{T: intLit(o.Val()), Ty: t}
		case isFloat(t) || t == untypedFloat:
			return Val{T: realLit(o.Val()), Ty: t}
		case isString(t):
			return Val{T: e.u.em.strLit(constant.StringVal(o.Val())), Ty: types.Typ[types.String]}
		}
	case *types.Var:
		if g := e.u.ctx.globalOf(o); g != nil {
			return Val{T: e.u.globalGet(e.st, g), Ty: o.Type()}
		}
	}
	e.errf("unsupported object %s", obj)
	return Val{T: "0", Ty: types.Typ[types.Int]}
}

func (e *SpecEnv) binary(n *ast.BinaryExpr) Val {
	boolT := types.Typ[types.Bool]
	switch n.Op {
	case token.LAND:
		return Val{T: and(e.expr(n.X).T, e.expr(n.Y).T), Ty: boolT}
	case token.LOR:
		return Val{T: or(e.expr(n.X).T, e.expr(n.Y).T), Ty: boolT}
	}
	a, b, ty := e.unify(e.expr(n.X), e.expr(n.Y))
	rty := ty
	switch n.Op {
	case token.EQL, token.NEQ, token.LSS, token.LEQ, token.GTR, token.GEQ:
		rty = boolT
	}
	if n.Op == token.SHL || n.Op == token.SHR {
		b = e.coerce(b, types.Typ[types.Uint])
		rty = a.Ty
		if isUntyped(a.Ty) {
			a.Ty = types.Typ[types.Int]
			rty = untypedInt
		}
	}
	cty := a.Ty
	if isUntyped(cty) {
		if cty == untypedFloat {
			a.Ty, b.Ty = types.Typ[types.Float64], types.Typ[types.Float64]
		} else if cty == types.Typ[types.UntypedNil] {
			a.Ty, b.Ty = types.Typ[types.UnsafePointer], types.Typ[types.UnsafePointer]
		} else if cty == types.Typ[types.UntypedBool] {
			a.Ty, b.Ty = boolT, boolT
		} else {
			a.Ty, b.Ty = types.Typ[types.Int], types.Typ[types.Int]
		}
	}
	pf := &Frame{u: e.u, pure: true}
	if e.fr != nil {
		pf.fn = e.fr.fn
	}
	t := e.u.binop(pf, e.st, n.Op, a, b, rty, token.NoPos)
	return Val{T: t, Ty: rty}
}

func (e *SpecEnv) selector(n *ast.SelectorExpr) Val {
	// package-qualified?
	if id, ok := n.X.(*ast.Ident); ok {
		if _, isVar := e.vars[id.Name]; !isVar && e.pkg != nil && e.pkg.Types.Scope().Lookup(id.Name) == nil {
			if ip := e.importNamed(id.Name); ip != nil {
				if obj := ip.Scope().Lookup(n.Sel.Name); obj != nil {
					return e.object(obj)
				}
				e.errf("unknown %s.%s", id.Name, n.Sel.Name)
				return Val{T: "0", Ty: types.Typ[types.Int]}
			}
		}
	}
	x := e.expr(n.X)
	return e.fieldOf(x, n.Sel.Name)
}

func (e *SpecEnv) importNamed(name string) *types.Package {
	if e.pkg == nil {
		return nil
	}
	for _, ip := range e.pkg.Types.Imports() {
		if ip.Name() == name {
			return ip
		}
	}
	// any loaded package by name
	for _, p := range e.u.ctx.allTypes {
		if p.Name() == name {
			return p
		}
	}
	return nil
}

func (e *SpecEnv) fieldOf(x Val, name string) Val {
	var pk *types.Package
	if e.pkg != nil {
		pk = e.pkg.Types
	}
	obj, index, _ := types.LookupFieldOrMethod(x.Ty, true, pk, name)
	fv, ok := obj.(*types.Var)
	if !ok || fv == nil {
		e.errf("no field %s in %s", name, x.Ty)
		return Val{T: "0", Ty: types.Typ[types.Int]}
	}
	cur := x
	for _, idx := range index {
		// auto-deref
		if pt, ok := cur.Ty.Underlying().(*types.Pointer); ok {
			if cur.Loc != nil {
				cur = Val{T: e.u.loadLoc(e.st, cur.Loc), Ty: pt.Elem()}
			} else {
				l := &Loc{Kind: LHeap, RootTy: pt.Elem(), Ref: cur.T}
				cur = Val{T: e.u.loadLoc(e.st, l), Ty: pt.Elem()}
			}
		}
		st, ok := cur.Ty.Underlying().(*types.Struct)
		if !ok {
			e.errf("field of non-struct %s", cur.Ty)
			return Val{T: "0", Ty: types.Typ[types.Int]}
		}
		f := st.Field(idx)
		sn := e.u.em.sortOf(cur.Ty)
		cur = Val{T: e.u.em.sel(sn, f.Name(), idx, cur.T), Ty: f.Type()}
	}
	return cur
}

func (e *SpecEnv) typeOf(x ast.Expr) types.Type {
	switch n := x.(type) {
	case *ast.Ident:
		if b := types.Universe.Lookup(n.Name); b != nil {
			if tn, ok := b.(*types.TypeName); ok {
				return tn.Type()
			}
		}
		if e.pkg != nil {
			if obj := e.pkg.Types.Scope().Lookup(n.Name); obj != nil {
				if tn, ok := obj.(*types.TypeName); ok {
					return tn.Type()
				}
			}
		}
	case *ast.SelectorExpr:
		if id, ok := n.X.(*ast.Ident); ok {
			if ip := e.importNamed(id.Name); ip != nil {
				if obj := ip.Scope().Lookup(n.Sel.Name); obj != nil {
					if tn, ok := obj.(*types.TypeName); ok {
						return tn.Type()
					}
				}
			}
		}
	case *ast.StarExpr:
		if t := e.typeOf(n.X); t != nil {
			return types.NewPointer(t)
		}
	case *ast.ArrayType:
		if t := e.typeOf(n.Elt); t != nil && n.Len == nil {
			return types.NewSlice(t)
		}
	case *ast.ParenExpr:
		return e.typeOf(n.X)
	}
	return nil
}

func (e *SpecEnv) callExpr(n *ast.CallExpr) Val {
	// conversion?
	if ty := e.typeOf(n.Fun); ty != nil && len(n.Args) == 1 {
		v := e.expr(n.Args[0])
		if isUntyped(v.Ty) {
			return e.coerce(v, ty)
		}
		return Val{T: e.u.convert(e.st, v.T, v.Ty, ty), Ty: ty}
	}
	if id, ok := n.Fun.(*ast.Ident); ok {
		switch id.Name {
		case "len":
			a := e.expr(n.Args[0])
			return Val{T: e.u.lenOf(e.st, a), Ty: types.Typ[types.Int]}
		case "cap":
			a := e.expr(n.Args[0])
			return Val{T: fmt.Sprintf("(s_cap %s)", a.T), Ty: types.Typ[types.Int]}
		case "old":
			o := *e
			o.st = e.old
			mv := map[string]Val{}
			for k, v := range e.vars {
				mv[k] = v
			}
			for k, v := range e.oldVars {
				if _, bound := e.boundNames[k]; bound {
					continue
				}
				mv[k] = v
			}
			o.vars = mv
			return o.expr(n.Args[0])
		case "locked":
			// state at the first lock acquisition of the function (linearisation point);
			// at a call site (sequential reasoning) it is the pre-state
			o := *e
			if e.u.lockState != nil && !e.callSite {
				o.st = e.u.lockState
			} else {
				o.st = e.old
			}
			return o.expr(n.Args[0])
		case "implies":
			return Val{T: implies(e.expr(n.Args[0]).T, e.expr(n.Args[1]).T), Ty: types.Typ[types.Bool]}
		case "iff":
			return Val{T: fmt.Sprintf("(= %s %s)", e.expr(n.Args[0]).T, e.expr(n.Args[1]).T), Ty: types.Typ[types.Bool]}
		case "cond":
			a, b, ty := e.unify(e.expr(n.Args[1]), e.expr(n.Args[2]))
			return Val{T: ite(e.expr(n.Args[0]).T, a.T, b.T), Ty: ty}
		case "forall", "exists":
			return e.quant(id.Name, n)
		case "all", "some":
			return e.quantAny(id.Name, n)
		case "min", "max":
			a, b, ty := e.unify(e.expr(n.Args[0]), e.expr(n.Args[1]))
			op := "<="
			if id.Name == "max" {
				op = ">="
			}
			return Val{T: fmt.Sprintf("(ite (%s %s %s) %s %s)", op, a.T, b.T, a.T, b.T), Ty: ty}
		case "called":
			// called(F): a call of a function or method named F has been executed on this path
			// (since function entry; calls in earlier iterations of an enclosing loop do not
			// count - the clause is meant for positive use only: "X happens after F").
			name := ""
			if len(n.Args) == 1 {
				switch a := n.Args[0].(type) {
				case *ast.Ident:
					name = a.Name
				case *ast.SelectorExpr:
					name = a.Sel.Name
				}
			}
			if name == "" {
				e.errf("called(): want a function name")
				return Val{T: "false", Ty: types.Typ[types.Bool]}
			}
			if v, ok := e.st.answered["called:"+name]; ok {
				return Val{T: fmt.Sprintf("(= %s 1)", v), Ty: types.Typ[types.Bool]}
			}
			return Val{T: "false", Ty: types.Typ[types.Bool]}
		case "visited":
			// visited(k): key k has been delivered by the enclosing range-over-map loop
			ver, ok := e.vars["rangevisited"]
			if !ok {
				e.errf("visited(): not inside a range-over-map loop")
				return Val{T: "false", Ty: types.Typ[types.Bool]}
			}
			k := e.expr(n.Args[0])
			return Val{T: fmt.Sprintf("(rangeVisited_%s %s %s)", sanitize(e.u.em.sortOf(k.Ty)), ver.T, k.T), Ty: types.Typ[types.Bool]}
		case "typeIs":
			// typeIs(x, T{}): the dynamic type of interface value x is T
			v := e.expr(n.Args[0])
			var ty types.Type
			if cl, ok := n.Args[1].(*ast.CompositeLit); ok {
				ty = e.typeOf(cl.Type)
			}
			if ty == nil {
				e.errf("typeIs: second argument must be T{}")
				return Val{T: "false", Ty: types.Typ[types.Bool]}
			}
			return Val{T: fmt.Sprintf("(and (not (= %s 0)) (= (itype %s) %d))", v.T, v.T, e.u.em.typeTag(ty)), Ty: types.Typ[types.Bool]}
		case "isnil":
			return Val{T: fmt.Sprintf("(= %s 0)", e.expr(n.Args[0]).T), Ty: types.Typ[types.Bool]}
		case "real":
			v := e.expr(n.Args[0])
			return e.coerce(Val{T: v.T, Ty: untypedInt}, types.Typ[types.Float64])
		case "mathdiv":
			// floor division on mathematical integers (b > 0)
			return Val{T: fmt.Sprintf("(div %s %s)", e.expr(n.Args[0]).T, e.expr(n.Args[1]).T), Ty: types.Typ[types.Int]}
		case "mathmod":
			return Val{T: fmt.Sprintf("(mod %s %s)", e.expr(n.Args[0]).T, e.expr(n.Args[1]).T), Ty: types.Typ[types.Int]}
		case "dyntype":
			return Val{T: fmt.Sprintf("(itype %s)", e.expr(n.Args[0]).T), Ty: types.Typ[types.Int]}
		case "isSentinel":
			e.u.em.pre("(declare-fun sentinelId (Int) Int)")
			return Val{T: fmt.Sprintf("(> (sentinelId %s) 0)", e.expr(n.Args[0]).T), Ty: types.Typ[types.Bool]}
		case "haskey":
			mv := e.expr(n.Args[0])
			mt, ok := mv.Ty.Underlying().(*types.Map)
			if !ok {
				e.errf("haskey: not a map")
				return Val{T: "false", Ty: types.Typ[types.Bool]}
			}
			k := e.coerce(e.expr(n.Args[1]), mt.Key())
			d, _ := e.u.mapGet(e.st, mt)
			return Val{T: fmt.Sprintf("(and (not (= %s 0)) (select (select %s %s) %s))", mv.T, d, mv.T, k.T), Ty: types.Typ[types.Bool]}
		case "sameArray":
			a, b := e.expr(n.Args[0]), e.expr(n.Args[1])
			return Val{T: fmt.Sprintf("(and (= (s_base %s) (s_base %s)) (not (= (s_base %s) 0)))", a.T, b.T, a.T), Ty: types.Typ[types.Bool]}
		case "allocated":
			// reference existed in the pre-state
			v := e.expr(n.Args[0])
			t := v.T
			if _, ok := v.Ty.Underlying().(*types.Slice); ok {
				t = fmt.Sprintf("(s_base %s)", v.T)
			}
			return Val{T: fmt.Sprintf("(<= %s %s)", t, e.old.alloc), Ty: types.Typ[types.Bool]}
		case "fresh":
			v := e.expr(n.Args[0])
			t := v.T
			if _, ok := v.Ty.Underlying().(*types.Slice); ok {
				t = fmt.Sprintf("(s_base %s)", v.T)
			}
			return Val{T: fmt.Sprintf("(> %s %s)", t, e.old.alloc), Ty: types.Typ[types.Bool]}
		}
	}
	// function or method call: inline by AST
	var fobj *types.Func
	var args []Val
	switch fn := n.Fun.(type) {
	case *ast.Ident:
		if e.pkg != nil {
			if o, ok := e.pkg.Types.Scope().Lookup(fn.Name).(*types.Func); ok {
				fobj = o
			}
		}
	case *ast.SelectorExpr:
		if id, ok := fn.X.(*ast.Ident); ok {
			if _, isVar := e.vars[id.Name]; !isVar && (e.pkg == nil || e.pkg.Types.Scope().Lookup(id.Name) == nil) {
				if ip := e.importNamed(id.Name); ip != nil {
					if o, ok := ip.Scope().Lookup(fn.Sel.Name).(*types.Func); ok {
						fobj = o
					}
					break
				}
			}
		}
		recv := e.expr(fn.X)
		var pk *types.Package
		if e.pkg != nil {
			pk = e.pkg.Types
		}
		obj, _, _ := types.LookupFieldOrMethod(recv.Ty, true, pk, fn.Sel.Name)
		if o, ok := obj.(*types.Func); ok {
			fobj = o
			// adjust receiver pointer-ness
			sig := o.Type().(*types.Signature)
			rt := sig.Recv().Type()
			_, wantPtr := rt.Underlying().(*types.Pointer)
			_, havePtr := recv.Ty.Underlying().(*types.Pointer)
			if havePtr && !wantPtr {
				pt := recv.Ty.Underlying().(*types.Pointer)
				l := recv.Loc
				if l == nil {
					l = &Loc{Kind: LHeap, RootTy: pt.Elem(), Ref: recv.T}
				}
				recv = Val{T: e.u.loadLoc(e.st, l), Ty: pt.Elem()}
			} else if !havePtr && wantPtr {
				e.errf("method %s needs addressable receiver", fn.Sel.Name)
			}
			args = append(args, recv)
		}
	}
	if fobj == nil {
		e.errf("cannot resolve call %s", exprString(n.Fun))
		return Val{T: "0", Ty: types.Typ[types.Int]}
	}
	sig := fobj.Type().(*types.Signature)
	for i, a := range n.Args {
		v := e.expr(a)
		if i < sig.Params().Len() {
			v = e.coerce(v, sig.Params().At(i).Type())
		}
		args = append(args, v)
	}
	return e.applyFunc(fobj, args)
}

func (e *SpecEnv) quant(kind string, n *ast.CallExpr) Val {
	boolT := types.Typ[types.Bool]
	if len(n.Args) != 3 {
		e.errf("%s needs (lo, hi, func)", kind)
		return Val{T: "true", Ty: boolT}
	}
	lo := e.coerce(e.expr(n.Args[0]), types.Typ[types.Int])
	hi := e.coerce(e.expr(n.Args[1]), types.Typ[types.Int])
	fl, ok := n.Args[2].(*ast.FuncLit)
	if !ok || len(fl.Type.Params.List) != 1 || len(fl.Type.Params.List[0].Names) != 1 {
		e.errf("%s: third argument must be func(i int) bool literal", kind)
		return Val{T: "true", Ty: boolT}
	}
	name := fl.Type.Params.List[0].Names[0].Name
	e.u.qn++
	bv := fmt.Sprintf("%s_q%d", name, e.u.qn)
	vars := map[string]Val{}
	for k, v := range e.vars {
		vars[k] = v
	}
	vars[name] = Val{T: bv, Ty: types.Typ[types.Int]}
	ne := e.with(vars)
	bn := map[string]bool{name: true}
	for k := range e.boundNames {
		bn[k] = true
	}
	ne.boundNames = bn
	body := ne.stmts(fl.Body.List, boolT)
	bodyT, bvN, loT, hiT := rebase(body.T, bv, lo.T, hi.T)
	rng := fmt.Sprintf("(and (<= %s %s) (< %s %s))", loT, bvN, bvN, hiT)
	if kind == "forall" {
		return Val{T: fmt.Sprintf("(forall ((%s Int)) (=> %s %s))", bvN, rng, bodyT), Ty: boolT}
	}
	return Val{T: fmt.Sprintf("(exists ((%s Int)) (and %s %s))", bvN, rng, bodyT), Ty: boolT}
}

// quantAny: all(func(k T) bool {...}) / some(...): unbounded quantifier over a sort.
func (e *SpecEnv) quantAny(kind string, n *ast.CallExpr) Val {
	boolT := types.Typ[types.Bool]
	fl, ok := n.Args[0].(*ast.FuncLit)
	if len(n.Args) != 1 || !ok || len(fl.Type.Params.List) != 1 || len(fl.Type.Params.List[0].Names) != 1 {
		e.errf("%s needs a func(x T) bool literal", kind)
		return Val{T: "true", Ty: boolT}
	}
	name := fl.Type.Params.List[0].Names[0].Name
	ty := e.typeOf(fl.Type.Params.List[0].Type)
	if ty == nil {
		e.errf("%s: unknown parameter type", kind)
		return Val{T: "true", Ty: boolT}
	}
	e.u.qn++
	bv := fmt.Sprintf("%s_q%d", name, e.u.qn)
	vars := map[string]Val{}
	for k, v := range e.vars {
		vars[k] = v
	}
	vars[name] = Val{T: bv, Ty: ty}
	ne := e.with(vars)
	bn := map[string]bool{name: true}
	for k := range e.boundNames {
		bn[k] = true
	}
	ne.boundNames = bn
	body := ne.stmts(fl.Body.List, boolT)
	inv := e.u.em.typeInv(bv, ty)
	if kind == "all" {
		// explicit triggers: membership of the bound key in a map's key set or in the visited
		// set of a range loop (the automatically chosen ones, e.g. on strlen, match poorly)
		var pats []string
		seenPat := map[string]bool{}
		for _, sx := range sexprsEndingWith(body.T, bv) {
			if (strings.HasPrefix(sx, "(rangeVisited_") || strings.HasPrefix(sx, "(select (select M_")) && !seenPat[sx] && len(pats) < 4 {
				seenPat[sx] = true
				pats = append(pats, ":pattern ("+sx+")")
			}
		}
		if len(pats) > 0 {
			return Val{T: fmt.Sprintf("(forall ((%s %s)) (! %s %s))", bv, e.u.em.sortOf(ty), implies(inv, body.T), strings.Join(pats, " ")), Ty: boolT}
		}
		return Val{T: fmt.Sprintf("(forall ((%s %s)) %s)", bv, e.u.em.sortOf(ty), implies(inv, body.T)), Ty: boolT}
	}
	return Val{T: fmt.Sprintf("(exists ((%s %s)) %s)", bv, e.u.em.sortOf(ty), and(inv, body.T)), Ty: boolT}
}

// rebase rewrites a quantifier over a slice index i into one over the absolute
// position J = off + i in the backing array, so that element accesses become
// (select A J) with the bound variable as a direct argument (robust E-matching).
func rebase(body, bv, lo, hi string) (string, string, string, string) {
	// find the most frequent offset term X in "(+ X bv)"
	suffix := " " + bv + ")"
	counts := map[string]int{}
	for i := 0; i+len(suffix) <= len(body); i++ {
		if !strings.HasPrefix(body[i:], suffix) {
			continue
		}
		// scan back for the balanced term X preceded by "(+ "
		j := i
		if j == 0 {
			continue
		}
		end := j
		start := -1
		if body[end-1] == ')' {
			d := 0
			for k := end - 1; k >= 0; k-- {
				if body[k] == ')' {
					d++
				} else if body[k] == '(' {
					d--
					if d == 0 {
						start = k
						break
					}
				}
			}
		} else {
			k := end - 1
			for k >= 0 && body[k] != ' ' && body[k] != '(' {
				k--
			}
			start = k + 1
		}
		if start < 3 || body[start-3:start] != "(+ " {
			continue
		}
		x := body[start:end]
		if strings.Contains(x, "_q") {
			continue // depends on another bound variable
		}
		if !strings.HasPrefix(x, "(s_off ") {
			continue // only slice offsets are index bases
		}
		counts[x]++
	}
	best := ""
	for x, c := range counts {
		if best == "" || c > counts[best] || (c == counts[best] && x < best) {
			best = x
		}
	}
	if best == "" {
		return body, bv, lo, hi
	}
	nv := bv + "a"
	body = strings.ReplaceAll(body, "(+ "+best+" "+bv+")", "\x00")
	body = replaceWord(body, bv, "(- "+nv+" "+best+")")
	body = strings.ReplaceAll(body, "\x00", nv)
	return body, nv, "(+ " + best + " " + lo + ")", "(+ " + best + " " + hi + ")"
}

func replaceWord(s, w, r string) string {
	var b strings.Builder
	for i := 0; i < len(s); {
		if strings.HasPrefix(s[i:], w) {
			before := i == 0 || !isSymChar(s[i-1])
			after := i+len(w) == len(s) || !isSymChar(s[i+len(w)])
			if before && after {
				b.WriteString(r)
				i += len(w)
				continue
			}
		}
		b.WriteByte(s[i])
		i++
	}
	return b.String()
}

func isSymChar(c byte) bool {
	return c == '_' || c == '!' || c >= 'a' && c <= 'z' || c >= 'A' && c <= 'Z' || c >= '0' && c <= '9'
}

// applyFunc inlines a (ghost or simple real) Go function by its AST.
func (e *SpecEnv) applyFunc(fobj *types.Func, args []Val) Val {
	sig := fobj.Type().(*types.Signature)
	var resTy types.Type = types.Typ[types.Bool]
	if sig.Results().Len() >= 1 {
		resTy = sig.Results().At(0).Type()
	}
	full := fobj.FullName()
	// built-in semantics
	switch full {
	case "math.Inf":
		return Val{T: "INF", Ty: resTy}
	case "math.Round":
		return Val{T: fmt.Sprintf("(to_real (roundhalf %s))", args[0].T), Ty: resTy}
	case "math.Floor":
		return Val{T: fmt.Sprintf("(to_real (to_int %s))", args[0].T), Ty: resTy}
	case "math.Ceil":
		return Val{T: fmt.Sprintf("(to_real (ceilr %s))", args[0].T), Ty: resTy}
	}
	if uf := e.u.ctx.uninterp[full]; uf {
		return e.uninterpreted(fobj, args, resTy)
	}
	if e.u.ctx.recursive[full] {
		return e.recCall(fobj, args, resTy)
	}
	decl, dpkg := e.u.ctx.funcDecl(fobj)
	if decl == nil || decl.Body == nil {
		return e.uninterpreted(fobj, args, resTy)
	}
	if e.depth > 12 {
		e.errf("spec function nesting too deep at %s (recursion is not supported)", full)
		return Val{T: e.u.em.zeroOf(resTy), Ty: resTy}
	}
	vars := map[string]Val{}
	ai := 0
	if decl.Recv != nil && len(decl.Recv.List) == 1 {
		if len(decl.Recv.List[0].Names) == 1 {
			vars[decl.Recv.List[0].Names[0].Name] = args[0]
		}
		ai = 1
	}
	for _, fl := range decl.Type.Params.List {
		for _, nm := range fl.Names {
			if ai < len(args) {
				vars[nm.Name] = args[ai]
			}
			ai++
		}
	}
	ne := *e
	ne.vars = vars
	ne.oldVars = vars
	ne.pkg = dpkg
	ne.depth = e.depth + 1
	r := ne.stmts(decl.Body.List, resTy)
	return r
}

func (e *SpecEnv) uninterpreted(fobj *types.Func, args []Val, resTy types.Type) Val {
	full := fobj.FullName()
	if !e.u.ctx.uninterp[full] {
		e.u.em.assumes = append(e.u.em.assumes, "spec function without translatable body treated as uninterpreted: "+full)
	}
	fn := "uf_" + sanitize(full)
	var srt []string
	var as []string
	for _, a := range args {
		srt = append(srt, e.u.em.sortOf(a.Ty))
		as = append(as, a.T)
	}
	e.u.em.pre(fmt.Sprintf("(declare-fun %s (%s) %s)", fn, strings.Join(srt, " "), e.u.em.sortOf(resTy)))
	t := fn
	if len(as) > 0 {
		t = fmt.Sprintf("(%s %s)", fn, strings.Join(as, " "))
	}
	return Val{T: t, Ty: resTy}
}

// stmts translates a restricted statement list (if/return/:=) to an expression.
func (e *SpecEnv) stmts(list []ast.Stmt, resTy types.Type) Val {
	if len(list) == 0 {
		e.errf("spec function body falls off the end")
		return Val{T: e.u.em.zeroOf(resTy), Ty: resTy}
	}
	switch s := list[0].(type) {
	case *ast.ReturnStmt:
		if len(s.Results) < 1 {
			e.errf("bare return in spec function")
			return Val{T: e.u.em.zeroOf(resTy), Ty: resTy}
		}
		return e.coerce(e.expr(s.Results[0]), resTy)
	case *ast.IfStmt:
		ne := e
		if s.Init != nil {
			ne = e.bind(s.Init)
		}
		c := ne.expr(s.Cond)
		thenV := ne.stmts(append(append([]ast.Stmt{}, s.Body.List...), list[1:]...), resTy)
		var elseV Val
		switch el := s.Else.(type) {
		case nil:
			elseV = e.stmts(list[1:], resTy)
		case *ast.BlockStmt:
			elseV = ne.stmts(append(append([]ast.Stmt{}, el.List...), list[1:]...), resTy)
		case *ast.IfStmt:
			elseV = ne.stmts(append([]ast.Stmt{el}, list[1:]...), resTy)
		}
		return Val{T: ite(c.T, thenV.T, elseV.T), Ty: thenV.Ty}
	case *ast.AssignStmt, *ast.DeclStmt:
		return e.bind(s).stmts(list[1:], resTy)
	case *ast.BlockStmt:
		return e.stmts(append(append([]ast.Stmt{}, s.List...), list[1:]...), resTy)
	case *ast.SwitchStmt:
		if s.Init == nil {
			return e.switchStmt(s, list[1:], resTy)
		}
	}
	e.errf("unsupported statement %T in spec function", list[0])
	return Val{T: e.u.em.zeroOf(resTy), Ty: resTy}
}

func (e *SpecEnv) switchStmt(s *ast.SwitchStmt, rest []ast.Stmt, resTy types.Type) Val {
	var tag *Val
	if s.Tag != nil {
		v := e.expr(s.Tag)
		tag = &v
	}
	type cs struct {
		cond string
		body []ast.Stmt
	}
	var cases []cs
	var def []ast.Stmt
	hasDef := false
	for _, c := range s.Body.List {
		cc := c.(*ast.CaseClause)
		if cc.List == nil {
			def = cc.Body
			hasDef = true
			continue
		}
		var cs_ []string
		for _, x := range cc.List {
			v := e.expr(x)
			if tag != nil {
				a, b, _ := e.unify(*tag, v)
				cs_ = append(cs_, fmt.Sprintf("(= %s %s)", a.T, b.T))
			} else {
				cs_ = append(cs_, v.T)
			}
		}
		cases = append(cases, cs{cond: or(cs_...), body: cc.Body})
	}
	var out Val
	if hasDef {
		out = e.stmts(append(append([]ast.Stmt{}, def...), rest...), resTy)
	} else {
		out = e.stmts(rest, resTy)
	}
	for i := len(cases) - 1; i >= 0; i-- {
		v := e.stmts(append(append([]ast.Stmt{}, cases[i].body...), rest...), resTy)
		out = Val{T: ite(cases[i].cond, v.T, out.T), Ty: v.Ty}
	}
	return out
}

func (e *SpecEnv) bind(s ast.Stmt) *SpecEnv {
	vars := map[string]Val{}
	for k, v := range e.vars {
		vars[k] = v
	}
	switch a := s.(type) {
	case *ast.AssignStmt:
		if len(a.Lhs) == len(a.Rhs) {
			for i := range a.Lhs {
				id, ok := a.Lhs[i].(*ast.Ident)
				if !ok {
					e.errf("assignment to non-identifier in spec function")
					continue
				}
				v := e.expr(a.Rhs[i])
				if a.Tok != token.DEFINE && a.Tok != token.ASSIGN {
					// op-assign
					op := map[token.Token]token.Token{token.ADD_ASSIGN: token.ADD, token.SUB_ASSIGN: token.SUB, token.MUL_ASSIGN: token.MUL, token.QUO_ASSIGN: token.QUO, token.REM_ASSIGN: token.REM}[a.Tok]
					cur := vars[id.Name]
					x, y, ty := e.unify(cur, v)
					pf := &Frame{u: e.u, pure: true}
					v = Val{T: e.u.binop(pf, e.st, op, x, y, ty, token.NoPos), Ty: ty}
				}
				if old, ok := vars[id.Name]; ok && a.Tok == token.ASSIGN {
					v = e.coerce(v, old.Ty)
				}
				if isUntyped(v.Ty) {
					if v.Ty == untypedFloat {
						v = e.coerce(v, types.Typ[types.Float64])
					} else {
						v.Ty = types.Typ[types.Int]
					}
				}
				vars[id.Name] = v
			}
		} else {
			e.errf("unsupported multi-assignment in spec function")
		}
	case *ast.DeclStmt:
		gd, ok := a.Decl.(*ast.GenDecl)
		if !ok || gd.Tok != token.VAR {
			e.errf("unsupported declaration in spec function")
			break
		}
		for _, sp := range gd.Specs {
			vs := sp.(*ast.ValueSpec)
			for i, nm := range vs.Names {
				var ty types.Type
				if vs.Type != nil {
					ty = e.typeOf(vs.Type)
				}
				if i < len(vs.Values) {
					v := e.expr(vs.Values[i])
					if ty != nil {
						v = e.coerce(v, ty)
					}
					vars[nm.Name] = v
				} else if ty != nil {
					vars[nm.Name] = Val{T: e.u.em.zeroOf(ty), Ty: ty}
				}
			}
		}
	}
	ne := e.with(vars)
	ne.oldVars = e.oldVars
	return ne
}

// lvalue translates an assigns-clause expression to locations.
func (e *SpecEnv) lvalue(x ast.Expr) []specLoc {
	switch n := x.(type) {
	case *ast.ParenExpr:
		return e.lvalue(n.X)
	case *ast.SelectorExpr:
		base := e.expr(n.X)
		var pk *types.Package
		if e.pkg != nil {
			pk = e.pkg.Types
		}
		obj, index, _ := types.LookupFieldOrMethod(base.Ty, true, pk, n.Sel.Name)
		fv, ok := obj.(*types.Var)
		if !ok || fv == nil || len(index) != 1 {
			e.errf("assigns: bad field %s", n.Sel.Name)
			return nil
		}
		if pt, ok := base.Ty.Underlying().(*types.Pointer); ok {
			l := &Loc{Kind: LHeap, RootTy: pt.Elem(), Ref: base.T}
			if base.Loc != nil {
				l = base.Loc
			}
			nl := *l
			nl.Path = append(append([]Step{}, l.Path...), Step{Field: index[0], Name: fv.Name(), Ty: fv.Type()})
			return []specLoc{{loc: &nl}}
		}
		// nested value field: recurse on lvalue of base
		var out []specLoc
		for _, bl := range e.lvalue(n.X) {
			nl := *bl.loc
			nl.Path = append(append([]Step{}, bl.loc.Path...), Step{Field: index[0], Name: fv.Name(), Ty: fv.Type()})
			out = append(out, specLoc{loc: &nl})
		}
		return out
	case *ast.StarExpr:
		p := e.expr(n.X)
		if pt, ok := p.Ty.Underlying().(*types.Pointer); ok {
			return []specLoc{{loc: &Loc{Kind: LHeap, RootTy: pt.Elem(), Ref: p.T}}}
		}
	case *ast.IndexExpr:
		a := e.expr(n.X)
		if mt, ok := a.Ty.Underlying().(*types.Map); ok {
			return []specLoc{{mapRef: a.T, mapTy: mt}}
		}
		sl, ok := a.Ty.Underlying().(*types.Slice)
		if !ok {
			e.errf("assigns: index on non-slice")
			return nil
		}
		if id, ok := n.Index.(*ast.Ident); ok && id.Name == "all" {
			return []specLoc{{loc: &Loc{Kind: LElem, RootTy: sl.Elem(), Ref: fmt.Sprintf("(s_base %s)", a.T)}, whole: true, off: fmt.Sprintf("(s_off %s)", a.T), ln: fmt.Sprintf("(s_cap %s)", a.T)}}
		}
		i := e.expr(n.Index)
		return []specLoc{{loc: &Loc{Kind: LElem, RootTy: sl.Elem(), Ref: fmt.Sprintf("(s_base %s)", a.T), Idx: fmt.Sprintf("(+ (s_off %s) %s)", a.T, i.T)}}}
	case *ast.Ident:
		if e.pkg != nil {
			if o, ok := e.pkg.Types.Scope().Lookup(n.Name).(*types.Var); ok {
				if g := e.u.ctx.globalOf(o); g != nil {
					return []specLoc{{loc: &Loc{Kind: LGlobal, Global: g, RootTy: o.Type()}}}
				}
			}
		}
	}
	e.errf("assigns: unsupported location %s", exprString(x))
	return nil
}

// specLoop evaluates a loop-invariant expression at a loop head: source variables
// are resolved to the current values of their cells.
func (u *Unit) specLoop(f *Frame, st *State, x ast.Expr, fn *ssa.Function, header int) string {
	return u.loopEnv(f, st, fn, header).boolOrInt(x)
}

// loopEnv: specification environment at a loop head (source variables by name).
func (u *Unit) loopEnv(f *Frame, st *State, fn *ssa.Function, header int) *SpecEnv {
	vars := map[string]Val{}
	type cand struct {
		c   *cellKey
		pos token.Pos
	}
	best := map[string]cand{}
	limit, hasLimit := f.loopLimit[header]
	if !hasLimit && header < 0 && f.envPos.IsValid() {
		// environment at a program point (call site, return): only variables declared before it
		limit, hasLimit = f.envPos, true
	}
	for a, c := range f.cells {
		if c.name == "" {
			continue
		}
		if hasLimit && a.Pos().IsValid() && a.Pos() >= limit {
			continue
		}
		if b, ok := best[c.name]; !ok || a.Pos() > b.pos || (a.Pos() == b.pos && c.id > b.c.id) {
			best[c.name] = cand{c, a.Pos()}
		}
	}
	if header < 0 && f.envPos.IsValid() {
		// a name that is only declared after the program point still resolves (to its current,
		// i.e. zero or havocked, value): one clause may serve several call sites of the function
		later := map[string]cand{}
		for a, c := range f.cells {
			if c.name == "" {
				continue
			}
			if _, ok := best[c.name]; ok {
				continue
			}
			if b, ok := later[c.name]; !ok || a.Pos() < b.pos {
				later[c.name] = cand{c, a.Pos()}
			}
		}
		for n, b := range later {
			best[n] = b
		}
	}
	for name, b := range best {
		if sv, ok := u.staticCells[b.c]; ok {
			vars[name] = sv
			continue
		}
		t, ok := st.cells[b.c]
		if !ok {
			t = u.em.zeroOf(b.c.ty)
		}
		vars[name] = Val{T: t, Ty: b.c.ty}
	}
	for name, v := range f.heapLocals {
		if _, ok := vars[name]; !ok {
			vars[name] = v
		}
	}
	// ghost set of visited keys of a range-over-map loop (the loop whose header calls next, else any)
	for itv, it := range f.rangeIt {
		t, ok := st.cells[it.cell]
		if !ok {
			continue
		}
		_, have := vars["rangevisited"]
		mine := false
		if header >= 0 && header < len(fn.Blocks) {
			for _, ins := range fn.Blocks[header].Instrs {
				if nx, ok := ins.(*ssa.Next); ok && nx.Iter == itv {
					mine = true
				}
			}
		}
		if mine || !have {
			vars["rangevisited"] = Val{T: t, Ty: types.Typ[types.Int]}
		}
	}
	// the range index of THIS loop is the one its header block loads
	if header >= 0 && header < len(fn.Blocks) {
		for _, ins := range fn.Blocks[header].Instrs {
			if un, ok := ins.(*ssa.UnOp); ok && un.Op == token.MUL {
				if al, ok := un.X.(*ssa.Alloc); ok && al.Comment == "rangeindex" {
					if c, ok := f.cells[al]; ok {
						t, ok := st.cells[c]
						if !ok {
							t = "(- 1)"
						}
						vars["rangeindex"] = Val{T: t, Ty: c.ty}
					}
					break
				}
			}
		}
	}
	if ri, ok := vars["rangeindex"]; ok {
		vars["rangeidx"] = Val{T: fmt.Sprintf("(+ %s 1)", ri.T), Ty: types.Typ[types.Int]}
	}
	// results of the function are not available; old() gives entry parameter values
	return &SpecEnv{u: u, st: st, old: f.entry, vars: vars, oldVars: f.paramV, pkg: u.ctx.pkgOf(fn), fr: f}
}

func (e *SpecEnv) boolOrInt(x ast.Expr) string {
	v := e.expr(x)
	return v.T
}

// ---------------------------------------------------------------------------
// recursive specification functions (fuel encoding)

type recDef struct {
	name   string
	heaps  []string
	inDef  bool
	fuel   string // fuel term to use for recursive calls while defining
	failed bool
}

func (e *SpecEnv) recCall(fobj *types.Func, args []Val, resTy types.Type) Val {
	u := e.u
	full := fobj.FullName()
	if u.recDefs == nil {
		u.recDefs = map[string]*recDef{}
	}
	rd := u.recDefs[full]
	if rd == nil {
		rd = &recDef{name: "rf_" + sanitize(fobj.Name())}
		u.recDefs[full] = rd
		e.defineRec(fobj, rd, resTy)
	}
	var as []string
	for _, a := range args {
		as = append(as, a.T)
	}
	if rd.inDef {
		// recursive call inside the definition: same heap variables, one unit of fuel less
		var hs []string
		for _, h := range rd.heaps {
			hs = append(hs, "hv_"+h)
		}
		return Val{T: fmt.Sprintf("(%s %s)", rd.name, strings.Join(append(append([]string{rd.fuel}, hs...), as...), " ")), Ty: resTy}
	}
	var hs []string
	for _, h := range rd.heaps {
		hs = append(hs, u.heapGet(e.st, h, u.heapTy[h]))
	}
	return Val{T: fmt.Sprintf("(%s %s)", rd.name, strings.Join(append(append([]string{"(FS (FS FZ))"}, hs...), as...), " ")), Ty: resTy}
}

func (e *SpecEnv) defineRec(fobj *types.Func, rd *recDef, resTy types.Type) {
	u := e.u
	decl, dpkg := u.ctx.funcDecl(fobj)
	if decl == nil || decl.Body == nil {
		e.errf("recursive spec function %s has no body", fobj.Name())
		rd.failed = true
		return
	}
	sig := fobj.Type().(*types.Signature)
	var pnames []string
	var ptys []types.Type
	if decl.Recv != nil && len(decl.Recv.List) == 1 && len(decl.Recv.List[0].Names) == 1 {
		pnames = append(pnames, decl.Recv.List[0].Names[0].Name)
		ptys = append(ptys, sig.Recv().Type())
	}
	for i := 0; i < sig.Params().Len(); i++ {
		pnames = append(pnames, sig.Params().At(i).Name())
		ptys = append(ptys, sig.Params().At(i).Type())
	}
	translate := func() string {
		sym := &symHeaps{tys: map[string]types.Type{}}
		for _, h := range rd.heaps {
			sym.tys[h] = u.heapTy[h]
			sym.names = append(sym.names, h)
		}
		st := &State{sym: sym, cells: map[*cellKey]string{}, heaps: map[string]string{}, globals: map[*ssa.Global]string{}, alloc: "alloc_init", pc: "true", held: map[string]int{}}
		vars := map[string]Val{}
		for i, n := range pnames {
			vars[n] = Val{T: fmt.Sprintf("rv%d_%s", i, sanitize(n)), Ty: ptys[i]}
		}
		ne := &SpecEnv{u: u, st: st, old: st, vars: vars, oldVars: vars, pkg: dpkg, fr: e.fr, depth: 1}
		body := ne.stmts(decl.Body.List, resTy)
		rd.heaps = sym.names
		return body.T
	}
	rd.inDef = true
	rd.fuel = "ly"
	translate() // first pass: discover the heaps read
	body := translate()
	rd.inDef = false
	em := u.em
	em.pre("(declare-datatypes ((Fuel 0)) (((FZ) (FS (fpred Fuel)))))")
	var sorts []string
	var binders []string
	var argsT []string
	sorts = append(sorts, "Fuel")
	for _, h := range rd.heaps {
		sorts = append(sorts, u.heapSortU(h, u.heapTy[h]))
		binders = append(binders, fmt.Sprintf("(hv_%s %s)", h, u.heapSortU(h, u.heapTy[h])))
		argsT = append(argsT, "hv_"+h)
	}
	for i, n := range pnames {
		sorts = append(sorts, em.sortOf(ptys[i]))
		v := fmt.Sprintf("rv%d_%s", i, sanitize(n))
		binders = append(binders, fmt.Sprintf("(%s %s)", v, em.sortOf(ptys[i])))
		argsT = append(argsT, v)
	}
	em.pre(fmt.Sprintf("(declare-fun %s (%s) %s)", rd.name, strings.Join(sorts, " "), em.sortOf(resTy)))
	app := func(fuel string) string {
		return fmt.Sprintf("(%s %s)", rd.name, strings.Join(append([]string{fuel}, argsT...), " "))
	}
	em.pre(fmt.Sprintf("(assert (forall ((ly Fuel) %s) (! (= %s %s) :pattern (%s))))", strings.Join(binders, " "), app("(FS ly)"), body, app("(FS ly)")))
	em.pre(fmt.Sprintf("(assert (forall ((ly Fuel) %s) (! (= %s %s) :pattern (%s))))", strings.Join(binders, " "), app("(FS ly)"), app("ly"), app("(FS ly)")))
}

// sexprsEndingWith returns the s-expressions of t whose last argument is the atom v.
func sexprsEndingWith(t, v string) []string {
	var out []string
	suffix := " " + v + ")"
	for i := 0; ; {
		j := strings.Index(t[i:], suffix)
		if j < 0 {
			break
		}
		end := i + j + len(suffix)
		// walk back to the matching open parenthesis
		depth := 0
		start := -1
		for k := end - 1; k >= 0; k-- {
			if t[k] == ')' {
				depth++
			} else if t[k] == '(' {
				depth--
				if depth == 0 {
					start = k
					break
				}
			}
		}
		if start >= 0 {
			out = append(out, t[start:end])
		}
		i = end
	}
	return out
}
