package main

import (
	"sort"
	"flag"
	"fmt"
	"os"
	"strings"
	"time"
)

func main() {
	if len(os.Args) < 2 {
		fmt.Fprintln(os.Stderr, "usage: govc verify|prop ...")
		os.Exit(2)
	}
	switch os.Args[1] {
	case "verify":
		cmdVerify(os.Args[2:])
	case "prop":
		cmdProp(os.Args[2:])
	case "replay":
		cmdReplay(os.Args[2:])
	case "desugar":
		fmt.Println(desugar(strings.Join(os.Args[2:], " ")))
	default:
		fmt.Fprintln(os.Stderr, "unknown command")
		os.Exit(2)
	}
}

func cmdVerify(args []string) {
	fs := flag.NewFlagSet("verify", flag.ExitOnError)
	repo := fs.String("repo", "/repo", "repository")
	pkgs := fs.String("pkgs", "./...", "package patterns (comma separated)")
	fn := fs.String("func", "", "function keys (comma separated), e.g. receiver.(*segDataBuffer).add")
	timeout := fs.Int("timeout", 10, "per obligation timeout (s)")
	dump := fs.String("dump", "", "directory to keep SMT files")
	all := fs.Bool("all", false, "run all solvers on every obligation")
	verbose := fs.Bool("v", false, "verbose")
	sweep := fs.String("sweep", "", "zero-annotation sweep: safety kinds to keep (e.g. index,slice,divzero) for functions without a contract; -func ALL:<pkg suffix> takes every such function of the package")
	fs.Parse(args)
	t0 := time.Now()
	ctx, err := loadCtx(*repo, strings.Split(*pkgs, ","))
	if err != nil {
		fmt.Fprintln(os.Stderr, "load:", err)
		os.Exit(2)
	}
	fmt.Printf("loaded in %.1fs\n", time.Since(t0).Seconds())
	dir := *dump
	if dir == "" {
		dir, _ = os.MkdirTemp("", "govc")
		defer os.RemoveAll(dir)
	} else {
		os.MkdirAll(dir, 0o755)
	}
	var units []*Unit
	keys := strings.Split(*fn, ",")
	if strings.HasPrefix(*fn, "ALL:") {
		suf := strings.TrimPrefix(*fn, "ALL:")
		keys = nil
		for k, f := range ctx.funcsByKey {
			pp := strings.SplitN(k, "::", 2)[0]
			if strings.HasSuffix(pp, suf) && f.Parent() == nil && f.Blocks != nil && !ctx.isGhostFile(f) && ctx.contractFor(f) == nil && f.Name() != "init" {
				keys = append(keys, ctx.funcKey(f))
			}
		}
		sort.Strings(keys)
	}
	for _, key := range keys {
		f := ctx.findFunc(key)
		if f == nil {
			fmt.Fprintln(os.Stderr, "function not found:", key)
			os.Exit(2)
		}
		con := ctx.contractFor(f)
		if con == nil && *sweep != "" {
			con = &Contract{Wiring: true, Abstract: true, NoFrame: true, Keep: map[string]bool{}, Pkg: ctx.pkgOf(f)}
			for _, k := range strings.Split(*sweep, ",") {
				con.Keep[strings.TrimSpace(k)] = true
			}
		}
		u := ctx.buildVC(f, con)
		units = append(units, u)
		for _, e := range u.errs {
			fmt.Println("  OUT-OF-SUBSET:", e)
		}
	}
	cfg := &SolverCfg{TimeoutS: *timeout, Seed: 0, Dir: dir, Solvers: []string{"z3new", "z3", "cvc5"}, All: *all, Par: 5}
	solveAll(units, cfg)
	bad := 0
	for _, u := range units {
		for _, ob := range u.em.obls {
			ok := ob.Result == "unsat"
			if ob.Kind == "vacuity" {
				ok = ob.Result != "unsat" || strings.Contains(ob.Name, "#vacuity#return")
			}
			mark := "ok  "
			if !ok {
				mark = "FAIL"
				bad++
			}
			if *verbose || !ok {
				fmt.Printf("%s %-8s %-7s %5dms %s %s %s @%s\n", mark, ob.Result, ob.Solver, ob.Ms, ob.Name, ob.AllSolvers, filepathBase(ob.File), filepathBase(ob.Pos))
				if !ok && *verbose {
					fmt.Println(trunc(ob.Model, 1500))
				}
			}
		}
		fmt.Printf("%s: %d obligations, assumptions: %v\n", u.unitName(), len(u.em.obls), u.em.assumes)
	}
	fmt.Printf("done in %.1fs, %d failed\n", time.Since(t0).Seconds(), bad)
	if bad > 0 {
		os.Exit(1)
	}
}

func filepathBase(s string) string {
	if i := strings.LastIndex(s, "/"); i >= 0 {
		return s[i+1:]
	}
	return s
}
