package main

// Verification of one function against its contract: builds the obligations.

import (
	"fmt"
	"go/ast"
	"go/token"
	"go/types"
	"sort"
	"strings"

	"golang.org/x/tools/go/ssa"
)

func (c *Ctx) newUnit(fn *ssa.Function, con *Contract) *Unit {
	u := &Unit{ctx: c, em: newEmitter(), fn: fn, con: con, heapTy: map[string]types.Type{}, obSeen: map[string]int{},
		depthMax: 4, extUsed: map[string]bool{}, staticCells: map[*cellKey]Val{}, frameSkip: map[string]bool{}}
	if con != nil {
		u.arith = con.Arith
		u.nowrap = con.NoWrap
		u.abstract = con.Abstract
	}
	return u
}

// buildVC symbolically executes the function and returns the unit with obligations.
func (c *Ctx) buildVC(fn *ssa.Function, con *Contract) *Unit {
	u := c.newUnit(fn, con)
	em := u.em
	em.pre("(declare-const alloc_init Int)")
	em.pre("(assert (>= alloc_init 0))")
	st := &State{cells: map[*cellKey]string{}, heaps: map[string]string{}, globals: map[*ssa.Global]string{}, alloc: "alloc_init", pc: "true", held: map[string]int{}}
	var args []Val
	params := map[string]Val{}
	for _, p := range fn.Params {
		n := em.fresh("p_"+p.Name(), em.sortOf(p.Type()))
		em.assert(u.valInvDeep(n, p.Type(), st))
		v := Val{T: n, Ty: p.Type()}
		args = append(args, v)
		params[p.Name()] = v
	}
	// a closure verified on its own: captured variables are arbitrary allocated heap objects
	var binds []Val
	for _, fv := range fn.FreeVars {
		n := em.fresh("fv_"+fv.Name(), "Int")
		em.assert(u.valInvDeep(n, fv.Type(), st))
		em.assert(fmt.Sprintf("(> %s 0)", n))
		v := Val{T: n, Ty: fv.Type()}
		binds = append(binds, v)
		params[fv.Name()] = v
	}
	for i := range binds {
		for j := 0; j < i; j++ {
			if types.Identical(binds[i].Ty, binds[j].Ty) {
				em.assert(fmt.Sprintf("(not (= %s %s))", binds[i].T, binds[j].T))
			}
		}
	}
	u.topBinds = binds
	u.params = params
	entry := st.clone()
	u.entry = entry
	pf := &Frame{u: u, fn: fn, pure: true}
	if con != nil {
		env := &SpecEnv{u: u, st: st, old: entry, vars: params, oldVars: params, pkg: con.Pkg, fr: pf}
		for _, r := range con.Requires {
			em.assert(env.boolExpr(r.Expr))
		}
	}
	if con != nil {
		env := &SpecEnv{u: u, st: st, old: entry, vars: params, oldVars: params, pkg: con.Pkg, fr: pf}
		for _, ux := range con.Uses {
			u.useLemma(&Frame{u: u, fn: fn}, st, env, ux)
		}
	}
	// vacuity: the precondition must be satisfiable
	u.em.obls = append(u.em.obls, &Obligation{Name: u.unitName() + "#vacuity#requires", Kind: "vacuity", At: len(em.lines), PC: "true", Goal: "false", Func: u.unitName(), Unit: u})
	u.topParams = params
	bindPost := func(results []Val) map[string]Val {
		post := map[string]Val{}
		for k, v := range params {
			post[k] = v
		}
		if con == nil {
			return post
		}
		rn := con.resultNames(fn)
		for i, r := range results {
			if i < len(rn) && rn[i] != "" && rn[i] != "_" {
				post[rn[i]] = r
			}
			post[fmt.Sprintf("ret%d", i)] = r
		}
		if len(results) == 1 {
			post["result"] = results[0]
		}
		return post
	}
	if con != nil {
		u.onReturn = func(f *Frame, rst *State, vals []Val, k int, pos token.Pos) {
			u.em.obls = append(u.em.obls, &Obligation{Name: fmt.Sprintf("%s#vacuity#return%d", u.unitName(), k+1), Kind: "vacuity", At: len(em.lines), PC: rst.pc, Goal: "false", Func: u.unitName(), Unit: u})
			if len(con.Exits) > 0 {
				ord := 0
				for i, p := range retPositions(fn) {
					if p == pos {
						ord = i + 1
					}
				}
				for _, ex := range con.Exits {
					if ex.Ord != 0 && ex.Ord != ord {
						continue
					}
					f.envPos = pos
					lenv := u.loopEnv(f, rst, fn, -1)
					f.envPos = token.NoPos
					for k2, v := range bindPost(vals) {
						if _, clash := lenv.vars[k2]; !clash || strings.HasPrefix(k2, "ret") || k2 == "result" {
							lenv.vars[k2] = v
						}
					}
					lenv.old = entry
					lenv.oldVars = params
					u.oblige(f, rst, "exit", fmt.Sprintf("%d:%s", ord, ex.Clause.label()), lenv.boolExpr(ex.Clause.Expr), pos)
				}
			}
			env := &SpecEnv{u: u, st: rst, old: entry, vars: bindPost(vals), oldVars: params, pkg: con.Pkg, fr: pf, atExit: true}
			for _, e := range con.Ensures {
				t := env.boolExpr(e.Expr)
				u.oblige(f, rst, "ensures", fmt.Sprintf("%s/return%d", e.label(), k+1), t, pos)
			}
		}
	}
	u.pendingBinds = u.topBinds
	_, out := u.runFunc(fn, args, st, nil, "", true)
	// exit reachability
	u.em.obls = append(u.em.obls, &Obligation{Name: u.unitName() + "#vacuity#exit", Kind: "vacuity", At: len(em.lines), PC: out.pc, Goal: "false", Func: u.unitName(), Unit: u})
	if con != nil && !con.NoFrame && !con.AssignsAll {
		top := &Frame{u: u, fn: fn}
		u.frameObligations(top, out, entry, con, params)
		u.allocFrameObligations(top, out, entry, con)
	}
	return u
}

// frameObligations: every pre-existing object outside the assigns clause is unchanged.
func (u *Unit) frameObligations(f *Frame, out, entry *State, con *Contract, params map[string]Val) {
	for _, hn := range sortedKeys(out.heaps) {
		if g := u.frameGoal(hn, out, entry, con); g != "" {
			u.oblige(f, out, "frame", hn, g, token.NoPos)
		}
	}
	env := &SpecEnv{u: u, st: entry, old: entry, vars: params, oldVars: params, pkg: con.Pkg, fr: &Frame{u: u, fn: u.fn, pure: true}}
	for g, v := range out.globals {
		allowed := false
		for _, a := range con.Assigns {
			for _, l := range env.lvalue(a) {
				if l.loc != nil && l.loc.Kind == LGlobal && l.loc.Global == g {
					allowed = true
				}
			}
		}
		if !allowed && v != u.globalGet(entry, g) {
			u.oblige(f, out, "frame", "global:"+g.Name(), fmt.Sprintf("(= %s %s)", v, u.globalGet(entry, g)), token.NoPos)
		}
	}
}

// allocFrameObligations: a typed `allocates T, []U` clause promises that no object of any other
// type comes into existence: every other heap is, above the entry allocation bound, what it was at
// entry (an allocation initialises the new object, a callee that may allocate the type gives a new
// heap version: both make the equality unprovable), and no callee may allocate other types.
func (u *Unit) allocFrameObligations(f *Frame, out, entry *State, con *Contract) {
	if len(con.AllocTypes) == 0 {
		return
	}
	env := &SpecEnv{u: u, st: entry, old: entry, vars: u.topParams, oldVars: u.topParams, pkg: con.Pkg, fr: &Frame{u: u, fn: u.fn, pure: true}}
	typed := u.allocHeapNames(con, env)
	if typed == nil {
		return
	}
	if u.calleeAllocAny {
		u.oblige(f, out, "alloc-frame", "callee may allocate objects of any type", "false", token.NoPos)
	}
	for _, k := range sortedKeys(u.calleeAllocNames) {
		if _, ok := typed[k]; !ok {
			u.oblige(f, out, "alloc-frame", "callee allocates in "+k, "false", token.NoPos)
		}
	}
	for _, hn := range sortedKeys(out.heaps) {
		if strings.HasPrefix(hn, "M_") || strings.HasPrefix(hn, "VM_") || u.heapTy[hn] == nil {
			continue
		}
		if _, ok := typed[hn]; ok {
			continue
		}
		h1 := out.heaps[hn]
		h0 := u.heapGet(entry, hn, u.heapTy[hn])
		if h1 == h0 {
			continue
		}
		u.oblige(f, out, "alloc-frame", hn, fmt.Sprintf("(forall ((r Int)) (=> (> r alloc_init) (= (select %s r) (select %s r))))", h1, h0), token.NoPos)
	}
}

// frameGoal: formula stating that heap map hn in state now differs from the entry
// state only at the locations named by the assigns clause (for pre-existing objects).
func (u *Unit) frameGoal(hn string, now, entry *State, con *Contract) string {
	g := u.frameGoalBase(hn, now, entry, con)
	if g == "" || len(con.AllocTypes) == 0 || strings.HasPrefix(hn, "M_") || strings.HasPrefix(hn, "VM_") {
		return g
	}
	// typed allocates: a heap whose type is not listed holds no new object either (also an
	// implicit invariant of every loop, like the assigns clause)
	env := &SpecEnv{u: u, st: entry, old: entry, vars: u.topParams, oldVars: u.topParams, pkg: con.Pkg, fr: &Frame{u: u, fn: u.fn, pure: true}}
	typed := u.allocHeapNames(con, env)
	if typed == nil {
		return g
	}
	if _, ok := typed[hn]; ok {
		return g
	}
	return fmt.Sprintf("(and %s (forall ((r Int)) (=> (> r alloc_init) (= (select %s r) (select %s r)))))", g, now.heaps[hn], u.heapGet(entry, hn, u.heapTy[hn]))
}

func (u *Unit) frameGoalBase(hn string, now, entry *State, con *Contract) string {
	ty := u.heapTy[hn]
	if ty == nil || u.frameSkip[hn] {
		return ""
	}
	h1, ok := now.heaps[hn]
	if !ok {
		return ""
	}
	var h0 string
	if strings.HasPrefix(hn, "M_") || strings.HasPrefix(hn, "VM_") {
		h0 = hn + "_init"
	} else {
		h0 = u.heapGet(entry, hn, ty)
	}
	if h1 == h0 {
		return ""
	}
	params := u.topParams
	env := &SpecEnv{u: u, st: entry, old: entry, vars: params, oldVars: params, pkg: con.Pkg, fr: &Frame{u: u, fn: u.fn, pure: true}}
	if strings.HasPrefix(hn, "M_") || strings.HasPrefix(hn, "VM_") {
		var conds []string
		for _, a := range con.Assigns {
			for _, l := range env.lvalue(a) {
				if l.mapTy != nil {
					if dn, vn := u.mapHeaps(l.mapTy); dn == hn || vn == hn {
						conds = append(conds, fmt.Sprintf("(not (= r %s))", l.mapRef))
					}
				}
			}
		}
		return fmt.Sprintf("(forall ((r Int)) (=> (and (> r 0) (<= r alloc_init) %s) (= (select %s r) (select %s r))))", strings.Join(conds, " "), h1, h0)
	}
	type exc struct {
		ref   string
		loc   *Loc
		whole bool
	}
	var excs []exc
	for _, a := range con.Assigns {
		for _, l := range env.lvalue(a) {
			var n string
			if l.loc == nil {
				continue
			}
			switch l.loc.Kind {
			case LHeap:
				n = u.em.heapName(l.loc.RootTy)
			case LElem:
				n = u.em.elemHeapName(l.loc.RootTy)
			default:
				continue
			}
			if n == hn {
				excs = append(excs, exc{ref: l.loc.Ref, loc: l.loc, whole: l.whole})
			}
		}
	}
	for _, l := range u.frameExtra {
		if l.loc.Kind == LHeap && u.em.heapName(l.loc.RootTy) == hn {
			excs = append(excs, exc{ref: l.loc.Ref, loc: l.loc})
		}
	}
	if strings.HasPrefix(hn, "E_") {
		expected := fmt.Sprintf("(select %s r)", h0)
		var conds []string
		for _, e := range excs {
			if e.whole {
				conds = append(conds, fmt.Sprintf("(not (= r %s))", e.ref))
			} else {
				expected = fmt.Sprintf("(ite (= r %s) (store %s %s (select (select %s r) %s)) %s)", e.ref, expected, e.loc.Idx, h1, e.loc.Idx, expected)
			}
		}
		return fmt.Sprintf("(forall ((r Int)) (! (=> (and (> r 0) (<= r alloc_init) %s) (= (select %s r) %s)) :pattern ((select %s r))))", strings.Join(conds, " "), h1, expected, h1)
	}
	expected := fmt.Sprintf("(select %s r)", h0)
	for _, e := range excs {
		newv := u.project(fmt.Sprintf("(select %s r)", h1), e.loc.RootTy, e.loc.Path)
		patched := u.updatePath(expected, e.loc.RootTy, e.loc.Path, newv)
		expected = fmt.Sprintf("(ite (= r %s) %s %s)", e.ref, patched, expected)
	}
	return fmt.Sprintf("(forall ((r Int)) (! (=> (and (> r 0) (<= r alloc_init)) (= (select %s r) %s)) :pattern ((select %s r))))", h1, expected, h1)
}

// useLemma instantiates a proved lemma (a ghost function under contract): its
// precondition becomes an obligation, its postcondition an assumption.
func (u *Unit) useLemma(f *Frame, st *State, env *SpecEnv, x ast.Expr) {
	call, ok := x.(*ast.CallExpr)
	if !ok {
		u.errf("use: not a call")
		return
	}
	id, ok := call.Fun.(*ast.Ident)
	if !ok {
		u.errf("use: lemma must be a plain function name")
		return
	}
	var lf *ssa.Function
	if env.pkg != nil {
		lf = u.ctx.funcsByKey[env.pkg.PkgPath+"::"+id.Name]
	}
	if lf == nil {
		u.errf("use: unknown lemma %s", id.Name)
		return
	}
	lcon := u.ctx.contractFor(lf)
	if lcon == nil {
		u.errf("use: lemma %s has no contract", id.Name)
		return
	}
	u.em.usedSpecs[u.ctx.funcKey(lf)] = true
	vars := map[string]Val{}
	for i, p := range lf.Params {
		if i < len(call.Args) {
			v := env.coerce(env.expr(call.Args[i]), p.Type())
			vars[p.Name()] = v
		}
	}
	le := &SpecEnv{u: u, st: st, old: st, vars: vars, oldVars: vars, pkg: lcon.Pkg, fr: &Frame{u: u, fn: u.fn, pure: true}, callSite: true}
	for _, r := range lcon.Requires {
		u.oblige(f, st, "use-pre", id.Name+":"+r.label(), le.boolExpr(r.Expr), token.NoPos)
	}
	for _, e := range lcon.Ensures {
		u.assume(st, le.boolExpr(e.Expr))
	}
}

// retPositions: positions of the return statements of fn in source order.
func retPositions(fn *ssa.Function) []token.Pos {
	var ps []token.Pos
	for _, b := range fn.Blocks {
		for _, ins := range b.Instrs {
			if r, ok := ins.(*ssa.Return); ok {
				ps = append(ps, r.Pos())
			}
		}
	}
	sort.Slice(ps, func(i, j int) bool { return ps[i] < ps[j] })
	return ps
}
