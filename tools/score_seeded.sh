#!/bin/bash
# usage: score_seeded.sh [name ...] : run the check(s) of the property each seeded change breaks against it; record detected_by in meta.json
set -u
cd /verif
wt=/tmp/govc-score-wt
git -C /repo worktree remove --force $wt >/dev/null 2>&1; rm -rf $wt; git -C /repo worktree prune
git -C /repo worktree add --detach $wt HEAD >/dev/null 2>&1 || exit 2
trap 'git -C /repo worktree remove --force $wt >/dev/null 2>&1' EXIT
names="$*"; [ -z "$names" ] && names=$(ls seeded)
claimed=$(python3 -c "import json;print(' '.join(c['property_id'] for c in json.load(open('MANIFEST.json'))['checks']))")
for name in $names; do
  d=seeded/$name; [ -f $d/meta.json ] || continue
  pid=$(python3 -c "import json;print(json.load(open('$d/meta.json'))['breaks_property'])")
  extra=$(python3 -c "import json;print(' '.join(json.load(open('$d/meta.json')).get('also_try',[])))")
  git -C $wt checkout -q -- .; git -C $wt apply $(realpath $d/patch.diff) || { echo "$name: patch does not apply"; continue; }
  det=""
  for id in $pid $extra; do
    [[ " $claimed " == *" $id "* ]] || [ -f props/$id.json ] || continue
    [ -f props/$id.json ] || continue
    out=$(engine/govc prop -repo $wt -id $id -no-evidence -no-replay -replays /tmp/govc-score-replays 2>&1); rc=$?
    if [ $rc -eq 1 ]; then det="$det $id"; first=$(echo "$out" | grep -m1 '^FAILED' | cut -c1-160); fi
  done
  python3 - "$d/meta.json" "$det" "${first:-}" <<'P'
import json,sys
p,det,first=sys.argv[1:4]
m=json.load(open(p)); m['detected_by']=det.split(); m['first_failed_obligation']=first if det.strip() else ""
json.dump(m,open(p,'w'),indent=1)
P
  echo "$name: detected_by=[$det ] ${first:-}"; first=""
done
rm -rf /tmp/govc-score-replays
