#!/usr/bin/env python3
# Regenerates /verif/MANIFEST.json from tools/manifest_src.json (per-property texts) and the props present.
import json, os, subprocess
src = json.load(open('/verif/tools/manifest_src.json'))
hooks = subprocess.run(['git','-C','/repo','log','--format=%h %s'],capture_output=True,text=True).stdout.strip().split('\n')
hook_commits = [l.split()[0] for l in hooks if l.split(' ',1)[1].startswith('verif:')]
checks = []
for pid, c in sorted(src['checks'].items()):
    if not os.path.exists(f'/verif/props/{pid}.json'):
        continue
    checks.append({
        "property_id": pid,
        "quick_cmd": f"./check {pid} --tier quick",
        "thorough_cmd": f"./check {pid} --tier thorough",
        "evidence_file": f"/verif/evidence/{pid}.json",
        "replay_cmd_template": "./check --replay {path}",
        "engine": "govc",
        "level_claimed": {"category": c.get("category", "proof"), "text": c["text"], "design_ref": c.get("design_ref", "DESIGN.md section 10/" + pid)},
        "level_note": c["note"],
        "technique": c.get("technique", "contract-based deductive verification: VCs generated from go/ssa of the real functions under //@ contracts, discharged by z3/cvc5"),
    })
for pid, c in src['checks'].items():
    pf = f'/verif/props/{pid}.json'
    if os.path.exists(pf):
        pd = json.load(open(pf))
        pd['explanation'] = c['text'] + ' -- Assumed/trusted: ' + c['note']
        pd['level'] = c.get('category', 'proof')
        json.dump(pd, open(pf, 'w'), indent=1)
claimed = {c["property_id"] for c in checks}
na = [{"property_id": k, "reason": v} for k, v in sorted(src['not_applicable'].items()) if k not in claimed]
m = {
 "version": 1,
 "setup_cmd": "cd /verif/engine && GOFLAGS=-mod=vendor GOPROXY=off GOSUMDB=off GOTOOLCHAIN=local CGO_ENABLED=0 go build -o govc ./cmd/govc",
 "hooks": {"guard": "verif", "enable": "go build -tags verif: adds the comment/ghost-only files zz_contracts_verif.go (contracts as //@ comments, ghost spec functions and lemma functions); govc loads /repo with -tags=verif",
           "baseline_off_cmd": "cd /repo && GOFLAGS=-mod=mod go test -vet=off -count=1 -timeout 25m ./...",
           "source_commits": hook_commits, "add_only": True},
 "engines": [{"name": "govc", "path": "/verif/engine", "serves_properties": sorted(claimed),
              "kind_free_text": "own VC generator for Go: go/ssa (naive form) symbolic execution with loop cutting at invariants, modular calls by contract, frame conditions, lock discipline; obligations raced on z3 5.1.0, z3 4.8.12, cvc5 1.0"}],
 "checks": checks,
 "notes": src.get("notes", ""),
 "not_applicable": na,
}
json.dump(m, open('/verif/MANIFEST.json','w'), indent=1)
print("checks:", sorted(claimed), "n/a:", [x['property_id'] for x in na])
