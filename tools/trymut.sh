#!/bin/bash
# usage: trymut.sh <patch.diff> <Cxx> [more Cxx...] : apply a patch to a scratch worktree of /repo HEAD and run the checks against it
set -u
patch="$(realpath "$1")"; shift
wt=/tmp/wt
if [ ! -d $wt ]; then git -C /repo worktree add --detach $wt HEAD >/dev/null 2>&1; fi
git -C $wt checkout -q --detach "$(git -C /repo rev-parse HEAD)" 2>/dev/null
git -C $wt checkout -q -- . ; git -C $wt clean -fdq
if ! git -C $wt apply "$patch" 2>/tmp/apply.err; then echo "PATCH DOES NOT APPLY: $(head -2 /tmp/apply.err)"; exit 3; fi
for id in "$@"; do
  /verif/engine/govc prop -repo $wt -id $id -no-evidence 2>&1 | grep -v "^  \|^VIOLATION" | tail -12
done
git -C $wt checkout -q -- .
