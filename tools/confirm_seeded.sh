#!/bin/bash
# usage: confirm_seeded.sh <srcdir with patch.diff, zz_seeded_demo_test.go, NOTES.md> <name e.g. C20-A> <property id>
# Confirms on a scratch worktree of /repo HEAD: patch applies+builds, existing suite passes with it, demo fails with it and passes without.
set -u
src="$1"; name="$2"; pid="$3"
export GOFLAGS=-mod=mod GOPROXY=off GOSUMDB=off GOTOOLCHAIN=local
wt=/tmp/confirm-wt
git -C /repo worktree remove --force $wt >/dev/null 2>&1; rm -rf $wt; git -C /repo worktree prune
git -C /repo worktree add --detach $wt HEAD >/dev/null 2>&1 || exit 2
trap 'git -C /repo worktree remove --force $wt >/dev/null 2>&1' EXIT
pkgdir=cmd/livesim2/app
pk=$(grep -m1 '^package ' $src/zz_seeded_demo_test.go | awk '{print $2}')
case "$pk" in chunkparser*) pkgdir=pkg/chunkparser;; scte35*) pkgdir=pkg/scte35;; patch*) pkgdir=pkg/patch;; esac
cd $wt
if [ "$pk" = app ]; then
  # pick the app package in which the demo compiles
  for cand in cmd/livesim2/app cmd/cmaf-ingest-receiver/app; do
    cp $src/zz_seeded_demo_test.go $cand/; if go test -vet=off -count=1 -run '^$' ./$cand >/dev/null 2>&1; then pkgdir=$cand; rm -f $cand/zz_seeded_demo_test.go; break; fi; rm -f $cand/zz_seeded_demo_test.go
  done
fi
if ! git apply $src/patch.diff 2>/tmp/confirm.err; then echo "$name: PATCH DOES NOT APPLY on current HEAD: $(head -1 /tmp/confirm.err)"; exit 3; fi
if ! go build ./... 2>/tmp/confirm.err; then echo "$name: DOES NOT BUILD"; exit 3; fi
suite=$(go test -vet=off -count=1 ./... 2>&1 | grep -v "no test files"); if echo "$suite" | grep -q "^FAIL\|^---"; then echo "$name: EXISTING SUITE FAILS WITH CHANGE"; echo "$suite" | grep "FAIL" | head -3; exit 3; fi
cp $src/zz_seeded_demo_test.go $pkgdir/
tests=$(grep -o '^func Test[A-Za-z0-9_]*' $pkgdir/zz_seeded_demo_test.go | sed 's/func //' | paste -sd'|')
with=$(go test $RACE -vet=off -count=1 -timeout 300s -run "^($tests)\$" ./$pkgdir 2>&1 | tail -3)
git checkout -q -- . 
without=$(go test $RACE -vet=off -count=1 -timeout 300s -run "^($tests)\$" ./$pkgdir 2>&1 | tail -3)
rm -f $pkgdir/zz_seeded_demo_test.go
okw=no; echo "$with" | grep -q "^FAIL\|FAIL" && okw=yes
okwo=no; echo "$without" | grep -q "^ok" && okwo=yes
echo "$name: applies=yes builds=yes suite_ok_with_change=yes demo_fails_with_change=$okw demo_passes_without=$okwo pkgdir=$pkgdir tests=$tests"
if [ $okw = yes ] && [ $okwo = yes ]; then
  d=/verif/seeded/$name; mkdir -p $d; cp $src/patch.diff $d/; cp $src/zz_seeded_demo_test.go $d/zz_seeded_demo_test.go.txt; cp $src/NOTES.md $d/NOTES.md 2>/dev/null
  python3 - "$d" "$pid" "$pkgdir" "$tests" "$name" <<'P'
import json,sys,subprocess
d,pid,pkgdir,tests,name=sys.argv[1:6]
head=subprocess.run(['git','-C','/repo','rev-parse','--short','HEAD'],capture_output=True,text=True).stdout.strip()
notes=open(d+'/NOTES.md').read() if True else ''
meta={"name":name,"breaks_property":pid,"source":"independent sub-agent given only the property text and a scratch worktree","confirmed_at_repo_commit":head,
 "confirmed":{"patch_applies":True,"builds":True,"existing_suite_passes_with_change":True,"demo_fails_with_change":True,"demo_passes_without_change":True},
 "demo":{"file":"zz_seeded_demo_test.go.txt (copy into "+pkgdir+" as zz_seeded_demo_test.go)","run":"go test -vet=off -count=1 -run '^("+tests+")$' ./"+pkgdir},
 "what_ran":"tools/confirm_seeded.sh on a scratch worktree of /repo HEAD (removed afterwards)","needs_to_manifest":"see NOTES.md","detected_by":[]}
json.dump(meta,open(d+'/meta.json','w'),indent=1)
P
fi
