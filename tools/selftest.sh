#!/bin/bash
# usage: selftest.sh [Cxx ...]  : every must-fail mutant of the given properties (default: all) must make its check fail.
# Mutants: selftest/mutants/<Cxx>_*.patch and seeded/<name>/patch.diff whose meta.json says "detected_by" contains the property.
# Runs SELFTEST_JOBS (default 4) mutants in parallel, each in its own scratch worktree of /repo HEAD (removed afterwards).
set -u
cd /verif
props="$*"
jobs=${SELFTEST_JOBS:-4}
list=$(ls selftest/mutants/*.patch 2>/dev/null; for m in seeded/*/meta.json; do [ -f "$m" ] && echo "$m"; done)
pairs=$(mktemp)
for item in $list; do
  if [[ "$item" == *.patch ]]; then
    ids=$(basename "$item" | cut -d_ -f1); patch="$item"
  else
    ids=$(python3 -c "import json,sys;print(' '.join(json.load(open('$item')).get('detected_by',[])))"); patch="$(dirname $item)/patch.diff"
  fi
  for id in $ids; do
    if [ -n "$props" ] && ! [[ " $props " == *" $id "* ]]; then continue; fi
    echo "$id $patch" >> $pairs
  done
done
run_one() {
  id="$1"; patch="$2"; slot="$3"
  wt=/tmp/govc-selftest-wt-$slot
  if [ ! -d $wt ]; then git -C /repo worktree add --detach $wt HEAD >/dev/null 2>&1 || { echo "SELFTEST-ERR cannot create worktree $wt"; return; }; fi
  git -C $wt checkout -q -- . ; git -C $wt clean -fdq
  if ! git -C $wt apply "$(realpath $patch)" 2>/dev/null; then echo "SELFTEST-SKIP $patch (does not apply)"; return; fi
  out=$(engine/govc prop -repo $wt -id $id -no-evidence -no-replay -replays /tmp/govc-selftest-replays-$slot 2>&1); rc=$?
  git -C $wt checkout -q -- .
  if [ $rc -eq 1 ] && echo "$out" | grep -q "^VIOLATION property=$id"; then
    echo "SELFTEST-OK   $id $(basename $(dirname $patch))/$(basename $patch): $(echo "$out" | grep -c '^VIOLATION') violation(s), first: $(echo "$out" | grep -m1 '^FAILED' | cut -c1-150)"
  else
    echo "SELFTEST-MISS $id $patch: check did not fail (rc=$rc)"
  fi
}
export -f run_one
for s in $(seq 1 $jobs); do git -C /repo worktree remove --force /tmp/govc-selftest-wt-$s >/dev/null 2>&1; done
git -C /repo worktree prune
n=$(wc -l < $pairs)
res=$(mktemp)
# slot = (line number mod jobs)+1 would collide under xargs; use a simple job pool with per-slot queues
for s in $(seq 1 $jobs); do
  ( i=0; while read -r id patch; do i=$((i+1)); if [ $(( (i-1) % jobs + 1 )) -eq $s ]; then run_one "$id" "$patch" "$s"; fi; done < $pairs ) >> $res.$s &
done
wait
cat $res.* | sort
fail=0; grep -q "SELFTEST-MISS\|SELFTEST-ERR" $res.* && fail=1
for s in $(seq 1 $jobs); do git -C /repo worktree remove --force /tmp/govc-selftest-wt-$s >/dev/null 2>&1; rm -rf /tmp/govc-selftest-replays-$s; done
git -C /repo worktree prune
rm -f $pairs $res $res.*
echo "selftest: $n mutant runs, $( [ $fail -eq 0 ] && echo all detected || echo SOME MISSED )"
exit $fail
