#!/bin/bash
# usage: selftest.sh [Cxx ...]  : every must-fail mutant of the given properties (default: all) must make its check fail.
# Mutants: selftest/mutants/<Cxx>_*.patch and seeded/<name>/patch.diff whose meta.json says "detected_by" contains the property.
set -u
cd /verif
wt=/tmp/govc-selftest-wt
git -C /repo worktree remove --force $wt >/dev/null 2>&1
git -C /repo worktree add --detach $wt HEAD >/dev/null 2>&1 || { echo "cannot create worktree"; exit 2; }
# contracts not yet committed in /repo are needed too
trap 'git -C /repo worktree remove --force $wt >/dev/null 2>&1' EXIT
props="$*"
fail=0; n=0
list=$(ls selftest/mutants/*.patch 2>/dev/null; for m in seeded/*/meta.json; do [ -f "$m" ] && echo "$m"; done)
for item in $list; do
  if [[ "$item" == *.patch ]]; then
    ids=$(basename "$item" | cut -d_ -f1); patch="$item"
  else
    ids=$(python3 -c "import json,sys;print(' '.join(json.load(open('$item')).get('detected_by',[])))"); patch="$(dirname $item)/patch.diff"
  fi
  for id in $ids; do
    if [ -n "$props" ] && ! [[ " $props " == *" $id "* ]]; then continue; fi
    git -C $wt checkout -q -- . ; 
    if ! git -C $wt apply "$(realpath $patch)" 2>/dev/null; then echo "SELFTEST-SKIP $patch (does not apply)"; continue; fi
    n=$((n+1))
    out=$(engine/govc prop -repo $wt -id $id -no-evidence -no-replay -replays /tmp/govc-selftest-replays 2>&1); rc=$?
    if [ $rc -eq 1 ] && echo "$out" | grep -q "^VIOLATION property=$id"; then
      echo "SELFTEST-OK   $id $(basename $(dirname $patch))/$(basename $patch): $(echo "$out" | grep -c '^VIOLATION') violation(s), first: $(echo "$out" | grep -m1 '^FAILED' | cut -c1-150)"
    else
      echo "SELFTEST-MISS $id $patch: check did not fail (rc=$rc)"; fail=1
    fi
  done
done
git -C $wt checkout -q -- .
rm -rf /tmp/govc-selftest-replays
echo "selftest: $n mutant runs, $( [ $fail -eq 0 ] && echo all detected || echo SOME MISSED )"
exit $fail
